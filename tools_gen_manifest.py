#!/usr/bin/env python3
"""Generate /verif/MANIFEST.json from the property registry (pyvc/props.py) and the
not-applicable table below.  Run:  python3-vt tools_gen_manifest.py"""
import json
import os
import sys

HERE = os.path.dirname(os.path.abspath(__file__))
sys.path.insert(0, HERE)
os.environ.setdefault('MPMATH_NOGMPY', '1')
sys.path.insert(0, '/repo')
from pyvc import props  # noqa: E402

NOT_APPLICABLE = props.NOT_APPLICABLE

checks = []
for pid in sorted(props.PROPS):
    P = props.PROPS[pid]
    checks.append({
        'property_id': pid,
        'quick_cmd': './vcheck %s --tier quick' % pid,
        'thorough_cmd': './vcheck %s --tier thorough' % pid,
        'evidence_file': 'evidence/%s.json' % pid,
        'replay_cmd_template': './vcheck --replay {path}',
        'engine': 'pyvc',
        'level_claimed': {'category': P.get('level', 'proof'), 'text': P['claim'],
                          'design_ref': 'DESIGN.md section 6 (%s)' % pid},
        'level_note': P['note'],
        'technique': P['technique'],
    })

manifest = {
    'version': 1,
    'setup_cmd': './setup.sh',
    'hooks': {
        'guard': 'MPMATH_VERIF',
        'enable': 'no hooks are compiled into /repo: contracts are sidecar files under /verif/contracts and replay uses monkeypatching outside /repo; the guard variable is unused',
        'baseline_off_cmd': 'cd /repo && /venv/bin/python -m pytest -ra -q -p no:cacheprovider --timeout=900 --continue-on-collection-errors',
        'source_commits': [],
        'add_only': True,
    },
    'engines': [
        {'name': 'pyvc', 'path': 'pyvc/', 'serves_properties': sorted(props.PROPS),
         'kind_free_text': 'contract-based deductive verification: verification conditions generated from the AST of the real functions in /repo (re-read on every run) and sidecar contracts, discharged by z3 (cvc5 second back end); precision-frame analysis; bounded native stand-ins for declared gaps'},
    ],
    'checks': checks,
    'not_applicable': [{'property_id': k, 'reason': v} for k, v in sorted(NOT_APPLICABLE.items())
                       if k not in props.PROPS],
    'notes': 'See DESIGN.md. exit codes of ./vcheck: 0 held, 1 VIOLATION, 2 UNDECIDED, 3 machinery error.',
}
with open(os.path.join(HERE, 'MANIFEST.json'), 'w') as f:
    json.dump(manifest, f, indent=1)
print('wrote MANIFEST.json with %d checks, %d not applicable' % (len(checks), len(manifest['not_applicable'])))

"""Contracts for the constant cache protocol (C17): the inner function of constant_memo and the
inner function of def_mpf_constant, verified once each on one instance (all instances share the
code object; the free variables f / fixed are modelled as abstract objects).

Assumed (documented in libelefun.def_mpf_constant): the fixed-point routine f(prec) returns
cfix(prec) = floor(c * 2**prec) for its positive constant c.  Under that assumption:
  * constant_memo.g returns cfix(prec) for every prec >= 0 whatever was requested before
    (history independence), and keeps the cache invariant memo_val == cfix(memo_prec);
  * def_mpf_constant.f returns the rounding of cfix(prec+20) (+1 for ceiling/up) and therefore a
    value on the correct side of c for the directed modes."""
from pyvc.contract import contract
from pyvc.spec import *          # noqa: F401,F403
from pyvc.lemmalib import *      # noqa: F401,F403

M = 'mpmath.libmp.libelefun.'


def fixed_call(prec):
    """assumed contract of a fixed-point constant routine: the floor of c * 2**prec"""
    return cfix(prec)


def fixed_call_requires(prec):
    return prec >= 0


def _libelefun():
    import importlib
    return importlib.import_module('mpmath.libmp.libelefun')


def memo_harness(args):
    """the real constant_memo applied to a native true-floor routine (c = 2/3), started in the given cache state"""
    class Injected(Exception):
        pass

    def f0(prec):
        if args.get('_callee_raises'):
            raise Injected()                           # the fixed-point routine is aborted
        return cfix(prec)
    g = _libelefun().constant_memo(f0)
    f0.memo_prec, f0.memo_val = args['m_prec'], args['m_val']
    try:
        r = g(args['prec'])
        exc = False
    except Injected:
        r, exc = None, True
    return dict(result=r, m_prec_out=f0.memo_prec, m_val_out=f0.memo_val, _exc=exc)


def const_harness(args):
    f = _libelefun().def_mpf_constant(lambda prec: cfix(prec))
    return dict(result=f(args['prec'], args['rnd']))


@contract(M + 'ln2_fixed')
class _:
    """constant_memo.<locals>.g (the instance bound to ln2_fixed)"""
    shapes = dict(prec='int', kwargs=('const', {}))
    result = 'int'
    default_props = ['C17']
    all_props = ['C17', 'C33']
    native_harness = memo_harness
    search = 'memo_inputs'
    closure_model = {'f': dict(fields=dict(memo_prec='int', memo_val='int'),
                               call=fixed_call, call_requires=fixed_call_requires, may_raise=True)}
    props = dict(exc_inv=['C17', 'C33'])
    state = dict(m_prec=('f', 'memo_prec'), m_val=('f', 'memo_val'))

    def requires(prec, m_prec, m_val):
        # cache invariant: empty (memo_prec == -1) or holding the floor at memo_prec bits
        return prec >= 0 and (m_prec == -1 or (m_prec >= 0 and m_val == cfix(m_prec)))

    def ensures_value(prec, result):
        # history independence: the value depends on prec only
        return result == cfix(prec)

    def ensures_inv(m_prec_out, m_val_out):
        return m_prec_out >= 0 and m_val_out == cfix(m_prec_out)

    def exc_ensures_inv(m_prec, m_val, m_prec_out, m_val_out):
        # C33: a computation aborted by an exception inside the fixed-point routine leaves the cache as it was
        return m_prec_out == m_prec and m_val_out == m_val

    def ensures_grows(m_prec, m_prec_out, prec):
        return m_prec_out >= m_prec and m_prec_out >= prec

    ghost = {('return f.memo_val >> memo_prec - prec', 0, 'before'): ['lemma_cfix_shift(memo_prec, prec)'],
             ('return f.memo_val >> newprec - prec', 0, 'before'): ['lemma_cfix_shift(newprec, prec)']}


@contract(M + 'mpf_ln2')
class _:
    """def_mpf_constant.<locals>.f (the instance bound to mpf_ln2)"""
    shapes = dict(prec='int')
    result = 'mpf'
    props = dict(wf=['C17', 'C01'], bits=['C17', 'C10'], value=['C17'], side=['C17'])
    all_props = ['C17', 'C01', 'C10']
    native_harness = const_harness
    search = 'const_inputs'
    closure_model = {'fixed': dict(call=fixed_call, call_requires=fixed_call_requires)}

    def requires(prec, rnd):
        return prec >= 1

    def ensures_wf(prec, rnd, result):
        return WFfin(result)

    def ensures_bits(prec, rnd, result):
        return bits_ok(result, prec)

    def ensures_value(prec, rnd, result):
        return CRound(result, 0, cfix(prec + 20) + (1 if (rnd == 'u' or rnd == 'c') else 0), -(prec + 20), prec, rnd)

    def ensures_side(prec, rnd, result):
        # c lies in [cfix(wp), cfix(wp)+1) * 2**-wp: floor/down results are <= cfix(wp) <= c*2**wp and
        # ceiling/up results are >= cfix(wp)+1 > c*2**wp (scaled by 2**wp, wp = prec+20)
        if result == fzero:
            return (rnd == 'f' or rnd == 'd' or rnd == 'n') and True
        if rnd == 'f' or rnd == 'd':
            return result[2] + prec + 20 >= 0 and result[1] * pow2(result[2] + prec + 20) <= cfix(prec + 20)
        if rnd == 'c' or rnd == 'u':
            return result[2] + prec + 20 >= 0 and result[1] * pow2(result[2] + prec + 20) >= cfix(prec + 20) + 1
        return True

    ghost = {('v = fixed(wp)', 0, 'after'): ['lemma_cfix_nonneg(wp)'],
             ('return normalize(0, v, -wp, bitcount(v), prec, rnd)', 0, 'before'): ['case v == 0', 'case bitlen(v) <= prec']}
    # the rounding unit 2**n (n = bitlen(v) - prec) times 2**(e + wp - n) is 2**(e + wp)
    post_hints = ['g_n = bitlen(g_call_fixed + (1 if (rnd == "u" or rnd == "c") else 0)) - prec',
                  'lemma_pow2_add(g_n, result[2] + prec + 20 - g_n)',
                  'lemma_mul_assoc3(result[1], pow2(g_n), pow2(result[2] + prec + 20 - g_n))']

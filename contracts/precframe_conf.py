"""Classification for the precision-frame analysis (DESIGN.md section 3.5, Appendix C).
Everything not listed here has the default contract `preserves`."""

# functions whose *purpose* is to change the precision (contract = the documented conversion)
SETTERS = {
    'ctx_mp_python.PythonMPContext.default', 'ctx_mp_python.PythonMPContext._set_prec',
    'ctx_mp_python.PythonMPContext._set_dps', 'ctx_mp_python.PythonMPContext.__init__',
    'ctx_iv.MPIntervalContext.__init__', 'ctx_iv.MPIntervalContext._set_prec',
    'ctx_iv.MPIntervalContext._set_dps', 'ctx_mp.MPContext.clone', 'ctx_mp.MPContext.__init__',
    'ctx_mp.MPContext.init_builtins',
    'ctx_mp.PrecisionManager.__enter__', 'ctx_mp.PrecisionManager.__exit__',
}

# helpers that intentionally return with a changed precision; every caller sees P havocked
HELPERS = {
    '_lambertw_series', 'calc_laplace_parameter', 'calc_time_domain_solution',
    'calc_nodes', 'emfun', '_exp_pade', 'RC_calc', 'secondzeta_singular_term',
    'separate_my_zero', '_hyp2f1_gosper', '_coef', 'Rzeta_simul', 'Rzeta_set', 'trunc_a',
    'coef', 'aux_M_Fp', 'aux_J_needed', 'find_in_interval', 'count_to', 'comp_fp_tolerance',
    'z_half', 'zeta_half', 'z_offline', 'zeta_offline', 'sure_number_block', 'search_supergood_block',
    'wpzeros', 'separate_zeros_in_block', 'find_rosser_block_zero',
}

# callee names that stand for an *arbitrary* function inside a wrapper whose job is to restore
# the precision whatever the wrapped function does
# nested callbacks that intentionally leave the precision changed; they are only ever run by the
# named consumer, which is analysed with that callee treated as *arbitrary* (precision havocked)
CALLBACK_HELPERS = {
    'functions.bessel.airyai.<locals>.h': 'hypercomb',
    'functions.bessel.airybi.<locals>.h': 'hypercomb',
    'functions.bessel._scorer.<locals>.h': 'hypercomb',
}

ARBITRARY_CALLEES = {
    'functions.hypergeometric.hypercomb': ('function',),
    'ctx_mp.MPContext.sum_accurately': ('terms',),
    'ctx_mp_python.PythonMPContext._wrap_specfun.<locals>.f_wrapped': ('f',),
    'ctx_iv.MPIntervalContext._wrap_specfun.<locals>.f_wrapped': ('f',),
    'ctx_mp.PrecisionManager.__call__.<locals>.g': ('f',),
}

# calls assumed to return a Python int (so that `ctx.prec += n ... ctx.prec -= n` can be followed)
INT_RESULTS = {'mag', 'int', 'len', 'max', 'min', 'abs', 'bitcount', 'dps_to_prec', 'prec_to_dps'}

CONF = dict(setters=SETTERS, helpers=HELPERS, arbitrary_callees=ARBITRARY_CALLEES, int_results=INT_RESULTS,
            callback_helpers=CALLBACK_HELPERS)

"""Spec lemmas: pure mathematics that justifies the *shape* of contract clauses (no code involved).
Each function returns a closed z3 formula that must be valid; the engine `speclemmas` discharges it
(negation unsat) on every run.  Extended reals are modelled by z3 Reals: only the order is used,
and the extended real line is order-isomorphic to a closed real interval."""
import z3


def _pts():
    sa, sb, ta, tb, x, y = z3.Reals('sa sb ta tb x y')
    return sa, sb, ta, tb, x, y


def lt_true_iff_all_pairs():
    """s, t non-empty: (for all x in s, y in t: x < y)  <=>  sb < ta"""
    sa, sb, ta, tb, x, y = _pts()
    valid = z3.And(sa <= sb, ta <= tb)
    fwd = z3.ForAll([x, y], z3.Implies(z3.And(sa <= x, x <= sb, ta <= y, y <= tb, sb < ta), x < y))
    bwd = z3.Implies(z3.Not(sb < ta), z3.And(sa <= sb, sb <= sb, ta <= ta, ta <= tb, z3.Not(sb < ta)))  # witness x=sb, y=ta
    return z3.Implies(valid, z3.And(fwd, bwd))


def lt_false_iff_no_pair():
    """(for all x in s, y in t: not x < y)  <=>  sa >= tb"""
    sa, sb, ta, tb, x, y = _pts()
    valid = z3.And(sa <= sb, ta <= tb)
    fwd = z3.ForAll([x, y], z3.Implies(z3.And(sa <= x, x <= sb, ta <= y, y <= tb, sa >= tb), z3.Not(x < y)))
    bwd = z3.Implies(z3.Not(sa >= tb), sa < tb)          # witness x=sa, y=tb satisfies x < y
    return z3.Implies(valid, z3.And(fwd, bwd))


def le_true_iff_all_pairs():
    sa, sb, ta, tb, x, y = _pts()
    valid = z3.And(sa <= sb, ta <= tb)
    fwd = z3.ForAll([x, y], z3.Implies(z3.And(sa <= x, x <= sb, ta <= y, y <= tb, sb <= ta), x <= y))
    return z3.Implies(valid, fwd)


def le_false_iff_no_pair():
    sa, sb, ta, tb, x, y = _pts()
    valid = z3.And(sa <= sb, ta <= tb)
    fwd = z3.ForAll([x, y], z3.Implies(z3.And(sa <= x, x <= sb, ta <= y, y <= tb, sa > tb), z3.Not(x <= y)))
    return z3.Implies(valid, fwd)


def add_contains():
    """lo <= sa+ta and sb+tb <= hi  =>  every x+y with x in s, y in t lies in [lo, hi]"""
    sa, sb, ta, tb, x, y = _pts()
    lo, hi = z3.Reals('lo hi')
    return z3.ForAll([x, y], z3.Implies(z3.And(sa <= x, x <= sb, ta <= y, y <= tb, lo <= sa + ta, sb + tb <= hi),
                                         z3.And(lo <= x + y, x + y <= hi)))


def sub_contains():
    sa, sb, ta, tb, x, y = _pts()
    lo, hi = z3.Reals('lo hi')
    return z3.ForAll([x, y], z3.Implies(z3.And(sa <= x, x <= sb, ta <= y, y <= tb, lo <= sa - tb, sb - ta <= hi),
                                         z3.And(lo <= x - y, x - y <= hi)))


def neg_contains():
    sa, sb, ta, tb, x, y = _pts()
    lo, hi = z3.Reals('lo hi')
    return z3.ForAll([x], z3.Implies(z3.And(sa <= x, x <= sb, lo <= -sb, -sa <= hi), z3.And(lo <= -x, -x <= hi)))


LEMMAS = {
    'C16': [lt_true_iff_all_pairs, lt_false_iff_no_pair, le_true_iff_all_pairs, le_false_iff_no_pair],
    'C14': [add_contains, sub_contains, neg_contains],
}

"""Sidecar contracts for the real functions under /repo (nothing in /repo is annotated)."""
import importlib

MODULES = ['contracts.libmpf', 'contracts.libmpc', 'contracts.misc', 'contracts.libmpi', 'contracts.constants', 'contracts.realview']
_loaded = False


def load_all():
    global _loaded
    if _loaded:
        return
    mods = [importlib.import_module(m) for m in MODULES]
    # parse the contract / spec sources now, so that a run is not disturbed by later edits
    from pyvc import contract as C, spec, lemmalib
    for m in mods + [spec, lemmalib]:
        with open(m.__file__) as f:
            C._parse_file(m.__file__, f.read())
    _loaded = True

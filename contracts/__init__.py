"""Sidecar contracts for the real functions under /repo (nothing in /repo is annotated)."""
import importlib

MODULES = ['contracts.libmpf', 'contracts.libmpc']
_loaded = False


def load_all():
    global _loaded
    if _loaded:
        return
    for m in MODULES:
        importlib.import_module(m)
    _loaded = True

"""Contracts for pickling (C40), machine floats (C09), integer helpers."""
from pyvc.contract import contract
from pyvc.spec import *          # noqa: F401,F403
from pyvc.lemmalib import *      # noqa: F401,F403

M = 'mpmath.libmp.libmpf.'
IM = 'mpmath.libmp.libintmath.'


@contract(M + 'to_pickable')
class _:
    inline = True
    shapes = dict(x='mpf')
    no_verify = True


@contract(M + 'from_pickable')
class _:
    inline = True
    no_verify = True


@contract('contracts.harness.pickle_roundtrip')
class _:
    """from_pickable(to_pickable(x)) == x for every canonical raw mpf, under the assumed builtin
    contract int(hex(m)[2:], 16) == m for m >= 0 (both real function bodies are inlined)"""
    shapes = dict(x='mpf')
    result = 'mpf'
    default_props = ['C40']
    all_props = ['C40']

    def requires(x):
        return WF(x)

    def ensures_roundtrip(x, result):
        return result == x


@contract(IM + 'isqrt_small_python')
class _:
    """floor square root (float seed + Newton iteration on integers: the seed is outside the subset)"""
    assumed = True
    search = 'isqrt_inputs'
    shapes = dict(x='int')
    result = 'int'

    def requires(x):
        return x >= 0

    def ensures_floor(x, result):
        return result >= 0 and result * result <= x and x < (result + 1) * (result + 1)


@contract(IM + 'isqrt_fast_python')
class _:
    """documented: floor(sqrt(x)) "or 1 ulp wrong".  Assumed here: never more than 1 too small.  (An earlier version
    of this contract also assumed `result**2 <= x`; the native spot check refuted it: isqrt_fast_python(2**54 - 1) is
    2**27, one too large.  sqrtrem_python only needs the lower side: it starts from result + 1 and walks down.)"""
    assumed = True
    search = 'isqrt_inputs'
    shapes = dict(x='int')
    result = 'int'

    def requires(x):
        return x >= 0

    def ensures_near(x, result):
        return result >= 0 and x < (result + 2) * (result + 2)


@contract(IM + 'sqrtrem_python')
class _:
    shapes = dict(x='int')
    result = ('tuple', 'int', 'int')
    default_props = ['C02']
    all_props = ['C02']

    def requires(x):
        return x >= 0

    def ensures_sqrtrem(x, result):
        return result[0] >= 0 and result[0] * result[0] + result[1] == x and 0 <= result[1] and result[1] <= 2 * result[0]

    def ensures_floor(x, result):
        return result[0] == isqrt(x)

    post_hints = ['lemma_sq_expand(result[0])', 'lemma_isqrt_unique(x, result[0])']

    loops = {
        0: dict(invariant=lambda x, y, rem: rem == x - y * y and y >= 0 and (y + 1) * (y + 1) > x),
        # the second correction loop is dead code under isqrt_fast's contract (its update would be
        # wrong if it ran: it subtracts 2y+3 instead of 2y+1); the invariant `False` makes the
        # verifier prove that its body is unreachable
        1: dict(invariant=lambda x, y, rem: rem == x - y * y and y >= 0 and rem >= 0 and rem <= 2 * y),
    }
    ghost = {
        ('y = isqrt_fast_python(x) + 1', 0, 'after'): ['lemma_sq_expand(y)', 'lemma_sq_expand(y - 1)'],
        ('y -= 1', 0, 'after'): ['lemma_sq_expand(y)', 'lemma_sq_expand(y + 1)'],
    }


@contract(M + 'mpf_pow_int')
class _:
    """Bounded only.  The deductive attempt was abandoned: the binary-exponentiation loop needs an
    invariant over products of truncated mantissas plus facts about integer powers that the
    lemma library does not have (canonical form and the precision bound of the result *are*
    decided deductively by the refinement pass under C01/C10)."""
    shapes = dict(s='mpf', n='int', prec='int')
    result = 'mpf'
    no_verify = True
    props = dict(wf=['C03'], bits=['C03'], special=['C03'], exact=['C03'], directed=['C03'])
    all_props = ['C03']
    raises = dict(ZeroDivisionError=lambda s, n: s == fzero and n < 0)
    native_clauses = ['wf', 'bits', 'special', 'exact', 'directed']

    def requires(s, n, prec, rnd):
        return WF(s) and prec >= 1

    def ensures_wf(s, n, prec, rnd, result):
        return WF(result)

    def ensures_bits(s, n, prec, rnd, result):
        return special(result) or result[3] <= prec

    def ensures_special(s, n, prec, rnd, result):
        return not is_nonfinite(s) or PowIntSpecial(result, s, n)

    def ensures_exact(s, n, prec, rnd, result):
        # exact results are returned exactly / few-bit results are correctly rounded
        return is_nonfinite(s) or not pow_small_case(s, n) or PowIntExact(result, s, n, prec, rnd)

    def ensures_directed(s, n, prec, rnd, result):
        return PowIntDirected(result, s, n, rnd)

    gaps = [dict(name='all clauses of s**n against the exact rational power (bounded)',
                 clauses=['wf', 'bits', 'special', 'exact', 'directed'], cond=lambda s, n: True,
                 gen='pow_int_inputs')]


@contract(IM + 'isqrt_python')
class _:
    shapes = dict(x='int')
    result = 'int'
    default_props = ['C02']
    all_props = ['C02']

    def requires(x):
        return x >= 0

    def ensures_floor(x, result):
        return result == isqrt(x) and result >= 0 and result * result <= x and x < (result + 1) * (result + 1)

"""Contracts for mpmath.libmp.libmpi (interval arithmetic, C14 / C16).

Comparison of intervals is stated on the endpoints; that the endpoint statement is equivalent to
the quantified one ("for every pair of member points") is pure order theory over the extended
reals and is discharged separately as spec lemmas (contracts/speclemmas.py)."""
from pyvc.contract import contract
from pyvc.spec import *          # noqa: F401,F403
from pyvc.lemmalib import *      # noqa: F401,F403

M = 'mpmath.libmp.libmpi.'


@contract(M + 'mpi_lt')
class _:
    """True iff every point of s is below every point of t (sb < ta); False iff no pair satisfies
    x < y (sa >= tb); None otherwise"""
    shapes = dict(s='mpi', t='mpi')
    result = 'any'
    inline = True           # three-valued result: callers (mpi_gt) execute the body
    default_props = ['C16']
    all_props = ['C16']

    def requires(s, t):
        return IV(s) and IV(t)

    def ensures_true(s, t, result):
        return (result is True) == val_lt(s[1], t[0])

    def ensures_false(s, t, result):
        return (result is False) == (val_le(t[1], s[0]) and not val_lt(s[1], t[0]))

    def ensures_none(s, t, result):
        return result is True or result is False or result is None


@contract(M + 'mpi_le')
class _:
    shapes = dict(s='mpi', t='mpi')
    result = 'any'
    inline = True
    default_props = ['C16']
    all_props = ['C16']

    def requires(s, t):
        return IV(s) and IV(t)

    def ensures_true(s, t, result):
        return (result is True) == val_le(s[1], t[0])

    def ensures_false(s, t, result):
        return (result is False) == (val_lt(t[1], s[0]) and not val_le(s[1], t[0]))

    def ensures_none(s, t, result):
        return result is True or result is False or result is None


@contract(M + 'mpi_gt')
class _:
    shapes = dict(s='mpi', t='mpi')
    result = 'any'
    default_props = ['C16']
    all_props = ['C16']

    def requires(s, t):
        return IV(s) and IV(t)

    def ensures_true(s, t, result):
        return (result is True) == val_lt(t[1], s[0])

    def ensures_false(s, t, result):
        return (result is False) == (val_le(s[1], t[0]) and not val_lt(t[1], s[0]))


@contract(M + 'mpi_ge')
class _:
    shapes = dict(s='mpi', t='mpi')
    result = 'any'
    default_props = ['C16']
    all_props = ['C16']

    def requires(s, t):
        return IV(s) and IV(t)

    def ensures_true(s, t, result):
        return (result is True) == val_le(t[1], s[0])

    def ensures_false(s, t, result):
        return (result is False) == (val_lt(s[1], t[0]) and not val_le(t[1], s[0]))


@contract(M + 'mpi_eq')
class _:
    shapes = dict(s='mpi', t='mpi')
    result = 'bool'
    default_props = ['C16']
    all_props = ['C16']

    def requires(s, t):
        return IV(s) and IV(t)

    def ensures_exact(s, t, result):
        # == compares the endpoints exactly (canonical endpoints: tuple equality is value equality)
        return result == (s[0] == t[0] and s[1] == t[1])


@contract(M + 'mpi_ne')
class _:
    shapes = dict(s='mpi', t='mpi')
    result = 'bool'
    default_props = ['C16']
    all_props = ['C16']

    def requires(s, t):
        return IV(s) and IV(t)

    def ensures_exact(s, t, result):
        return result == (not (s[0] == t[0] and s[1] == t[1]))

"""Contracts for mpmath.libmp.libmpf / libintmath (kernel)."""
from pyvc.contract import contract, table_model, dict_model
from pyvc.spec import *          # noqa: F401,F403
from pyvc.lemmalib import *      # noqa: F401,F403

M = 'mpmath.libmp.libmpf.'
IM = 'mpmath.libmp.libintmath.'

# ------------------------------------------------------------------ constant tables (exhaustively checked)
table_model(IM + 'trailtable', tz8, 0, 256)
table_model(IM + 'bctable', bitlen, 0, 1024)
table_model(M + 'h_mask_small', hmask, 0, 300)
dict_model(M + 'int_cache', -10, 257,
           lambda n, v: Exact(v, 1 if n < 0 else 0, -n if n < 0 else n, 0), 'mpf')


# ------------------------------------------------------------------ assumed leaves
@contract(IM + 'python_bitcount')
class _:
    """= int.bit_length for n >= 0 (uses bisect and math.log: outside the subset)."""
    assumed = True
    shapes = dict(n='int')
    result = 'int'

    def requires(n):
        return n >= 0

    def ensures_bitlen(n, result):
        return result == bitlen(n)


# ------------------------------------------------------------------ normalisation
def NormMid(man, exp, bc, man0, exp0, sign, prec, rnd):
    """_normalize after its rounding step: (man, exp) is the rounded value of (man0, exp0);
    bc is the bit count of man, or stale by the carry (man == 2**prec)."""
    return (man >= 1 and bc >= 1 and (bc == bitlen(man) or man == pow2(bc)) and
            ((bitlen(man0) <= prec and man == man0 and exp == exp0 and bc == bitlen(man0)) or
             (bitlen(man0) > prec and bc == prec and exp == exp0 + (bitlen(man0) - prec)
              and rounded_ok(man, man0, bitlen(man0) - prec, rnd, sign))))


def StripPost(man, exp, bc, man1, exp1, bc1):
    """trailing zero bits of man1 were moved into the exponent"""
    return (man >= 1 and man % 2 == 1 and exp >= exp1 and man * pow2(exp - exp1) == man1
            and bc1 - bc == exp - exp1)


NORMALIZE_GHOST = {
    ('if not man:', 0, 'before'): ['g_man0 = man', 'g_exp0 = exp'],
    ('n = bc - prec', 0, 'after'): ['lemma_pow2_add(prec, n)', 'lemma_pow2_add(prec - 1, n)'],
    ('bc = prec', 0, 'after'): ['lemma_bitlen_bounds(man, prec)'],
    ('if not man & 1:', 0, 'before'): [
        'cut NormMid(man, exp, bc, g_man0, g_exp0, sign, prec, rnd)',
        'g_man1 = man', 'g_exp1 = exp', 'g_bc1 = bc'],
    ('t = trailtable[int(man & 255)]', None, 'after'): ['split t 0 7'],
    ('man >>= t', None, 'before'): ['g_m = man'],
    ('man >>= t', None, 'after'): ['lemma_mul_eq(g_m, man * pow2(t), pow2(exp - g_exp1))'],
    ('exp += t', None, 'after'): [
        'lemma_mul_eq(pow2(exp - g_exp1), pow2(t) * pow2(exp - t - g_exp1), man)'],
    ('if man == 1:', 0, 'before'): [
        'cut StripPost(man, exp, bc, g_man1, g_exp1, g_bc1) and '
        'NormMid(g_man1, g_exp1, g_bc1, g_man0, g_exp0, sign, prec, rnd)',
        'lemma_bitlen_mul_pow2(man, exp - g_exp1)',
        'lemma_odd_pow2_unique(man, exp - g_exp1, 1, g_bc1)'],
}

STRIP_LOOP = dict(
    invariant=lambda man, exp, bc, man_in, exp_in, bc_in: (
        man >= 1 and exp >= exp_in and man * pow2(exp - exp_in) == man_in
        and bc_in - bc == exp - exp_in),
    decreases=lambda man: man)


@contract(M + '_normalize')
class _:
    shapes = dict(sign='int', man='int', exp='int', bc='int', prec='int')
    result = 'mpf'
    props = dict(wf=['C01'], bits=['C10'], value=['C02'])
    all_props = ['C01', 'C02', 'C10']

    def requires(sign, man, exp, bc, prec, rnd):
        return (sign == 0 or sign == 1) and man >= 0 and prec >= 1 and (man == 0 or bc == bitlen(man))

    def ensures_wf(sign, man, exp, bc, prec, rnd, result):
        return WFfin(result) and (man == 0 or result[0] == sign)

    def ensures_bits(sign, man, exp, bc, prec, rnd, result):
        return result[3] <= prec

    def ensures_value(sign, man, exp, bc, prec, rnd, result):
        return CRound(result, sign, man, exp, prec, rnd)

    loops = {0: STRIP_LOOP}
    ghost = NORMALIZE_GHOST


@contract(M + '_normalize1')
class _:
    """same as _normalize with the added precondition that man is odd or zero"""
    shapes = dict(sign='int', man='int', exp='int', bc='int', prec='int')
    result = 'mpf'
    props = dict(wf=['C01'], bits=['C10'], value=['C02'])
    all_props = ['C01', 'C02', 'C10']

    def requires(sign, man, exp, bc, prec, rnd):
        return ((sign == 0 or sign == 1) and man >= 0 and prec >= 1
                and (man == 0 or (bc == bitlen(man) and man % 2 == 1)))

    def ensures_wf(sign, man, exp, bc, prec, rnd, result):
        return WFfin(result) and (man == 0 or result[0] == sign)

    def ensures_bits(sign, man, exp, bc, prec, rnd, result):
        return result[3] <= prec

    def ensures_value(sign, man, exp, bc, prec, rnd, result):
        return CRound(result, sign, man, exp, prec, rnd)

    loops = {0: STRIP_LOOP}
    ghost = NORMALIZE_GHOST


# ------------------------------------------------------------------ construction
@contract(M + 'from_man_exp')
class _:
    shapes = dict(man='int', exp='int', prec='int')
    variants = [dict(prec=None)]
    none_as = dict(prec=0)
    result = 'mpf'
    props = dict(wf=['C01'], bits=['C10'], value=['C02'])
    all_props = ['C01', 'C02', 'C10']

    def requires(man, exp, prec, rnd):
        return prec is None or prec >= 0

    def ensures_wf(man, exp, prec, rnd, result):
        return WFfin(result)

    def ensures_bits(man, exp, prec, rnd, result):
        return prec is None or prec == 0 or result[3] <= prec

    def ensures_value(man, exp, prec, rnd, result):
        return CRoundOrExact(result, 1 if man < 0 else 0, -man if man < 0 else man, exp,
                             0 if prec is None else prec, rnd)

    loops = {0: STRIP_LOOP}
    ghost = {
        ('man = MPZ(man)', 0, 'before'): ['g_man0 = man'],
        ('if not man & 1:', 0, 'before'): ['g_man1 = man', 'g_exp1 = exp', 'g_bc1 = bc'],
        ('return (sign, man >> 1, exp + 1, bc - 1)', 0, 'before'): [
            'lemma_bitlen_mul_pow2(shr(man, 1), 1)'],
        ('t = trailtable[int(man & 255)]', None, 'after'): ['split t 0 7'],
        ('man >>= t', None, 'before'): ['g_m = man'],
        ('man >>= t', None, 'after'): ['lemma_mul_eq(g_m, man * pow2(t), pow2(exp - g_exp1))'],
        ('exp += t', None, 'after'): [
            'lemma_mul_eq(pow2(exp - g_exp1), pow2(t) * pow2(exp - t - g_exp1), man)'],
        ('return (sign, man, exp, bc)', 0, 'before'): [
            'cut (g_man1 >= 1 and g_bc1 == bitlen(g_man1) and (prec is None or prec == 0) and '
            'g_man1 == (-g_man0 if g_man0 < 0 else g_man0) and sign == (1 if g_man0 < 0 else 0) and '
            '(man == g_man1 and exp == g_exp1 and bc == g_bc1 and man % 2 == 1 or '
            ' StripPost(man, exp, bc, g_man1, g_exp1, g_bc1)))',
            'lemma_bitlen_mul_pow2(man, exp - g_exp1)'],
    }


@contract(M + 'from_int')
class _:
    shapes = dict(n='int', prec='int')
    result = 'mpf'
    props = dict(wf=['C01'], bits=['C10'], value=['C02'])
    all_props = ['C01', 'C02', 'C10']

    def requires(n, prec, rnd):
        return prec >= 0

    def ensures_wf(n, prec, rnd, result):
        return WFfin(result)

    def ensures_bits(n, prec, rnd, result):
        return prec == 0 or result[3] <= prec

    def ensures_value(n, prec, rnd, result):
        return CRoundOrExact(result, 1 if n < 0 else 0, -n if n < 0 else n, 0, prec, rnd)


# ------------------------------------------------------------------ sign manipulation
@contract(M + 'mpf_pos')
class _:
    shapes = dict(s='mpf', prec='int')
    result = 'mpf'
    props = dict(wf=['C01'], bits=['C10'], value=['C02'])
    all_props = ['C01', 'C02', 'C10']

    def requires(s, prec, rnd):
        return WF(s) and prec >= 0

    def ensures_wf(s, prec, rnd, result):
        return WF(result)

    def ensures_bits(s, prec, rnd, result):
        return prec == 0 or special(result) or result[3] <= prec

    def ensures_value(s, prec, rnd, result):
        return RoundOf(result, s, prec, rnd)


@contract(M + 'mpf_neg')
class _:
    shapes = dict(s='mpf', prec='int')
    variants = [dict(prec=None)]
    none_as = dict(prec=0)
    result = 'mpf'
    props = dict(wf=['C01'], bits=['C10'], value=['C02'])
    all_props = ['C01', 'C02', 'C10']

    def requires(s, prec, rnd):
        return WF(s) and (prec is None or prec >= 0)

    def ensures_wf(s, prec, rnd, result):
        return WF(result)

    def ensures_bits(s, prec, rnd, result):
        return prec is None or prec == 0 or special(result) or result[3] <= prec

    def ensures_value(s, prec, rnd, result):
        return RoundOf(result, neg_of(s), 0 if prec is None else prec, rnd)


@contract(M + 'mpf_abs')
class _:
    shapes = dict(s='mpf', prec='int')
    variants = [dict(prec=None)]
    none_as = dict(prec=0)
    result = 'mpf'
    props = dict(wf=['C01'], bits=['C10'], value=['C02'])
    all_props = ['C01', 'C02', 'C10']

    def requires(s, prec, rnd):
        return WF(s) and (prec is None or prec >= 0)

    def ensures_wf(s, prec, rnd, result):
        return WF(result)

    def ensures_bits(s, prec, rnd, result):
        return prec is None or prec == 0 or special(result) or result[3] <= prec

    def ensures_value(s, prec, rnd, result):
        return RoundOf(result, abs_of(s), 0 if prec is None else prec, rnd)


@contract(M + 'mpf_sign')
class _:
    shapes = dict(s='mpf')
    result = 'int'
    default_props = ['C05']
    all_props = ['C05']

    def requires(s):
        return WF(s)

    def ensures_sign(s, result):
        return result == sgn_of(s)


@contract(M + 'mpf_shift')
class _:
    """documented exact operation: multiply by 2**n"""
    shapes = dict(s='mpf', n='int')
    result = 'mpf'
    props = dict(wf=['C01'], value=['C39'])
    all_props = ['C01', 'C39']

    def requires(s, n):
        return WF(s)

    def ensures_wf(s, n, result):
        return WF(result)

    def ensures_value(s, n, result):
        return (s[1] == 0 and result == s) or (s[1] != 0 and result == (s[0], s[1], s[2] + n, s[3]))

"""Contracts for mpmath.libmp.libmpf / libintmath (kernel)."""
from pyvc.contract import contract, table_model, dict_model
from pyvc.spec import *          # noqa: F401,F403
from pyvc.lemmalib import *      # noqa: F401,F403

M = 'mpmath.libmp.libmpf.'
IM = 'mpmath.libmp.libintmath.'

# ------------------------------------------------------------------ constant tables (exhaustively checked)
table_model(IM + 'trailtable', tz8, 0, 256)
table_model(IM + 'bctable', bitlen, 0, 1024)
table_model(M + 'h_mask_small', hmask, 0, 300)
dict_model(M + 'int_cache', -10, 257,
           lambda n, v: Exact(v, 1 if n < 0 else 0, -n if n < 0 else n, 0), 'mpf')


# ------------------------------------------------------------------ assumed leaves
@contract(IM + 'python_bitcount')
class _:
    """= int.bit_length for n >= 0 (uses bisect and math.log: outside the subset)."""
    assumed = True
    search = 'bitcount_inputs'
    shapes = dict(n='int')
    result = 'int'

    def requires(n):
        return n >= 0

    def ensures_bitlen(n, result):
        return result == bitlen(n)


# ------------------------------------------------------------------ normalisation
def NormMid(man, exp, bc, man0, exp0, sign, prec, rnd):
    """_normalize after its rounding step: (man, exp) is the rounded value of (man0, exp0);
    bc is the bit count of man, or stale by the carry (man == 2**prec)."""
    return (man >= 1 and bc >= 1 and (bc == bitlen(man) or man == pow2(bc)) and
            ((bitlen(man0) <= prec and man == man0 and exp == exp0 and bc == bitlen(man0)) or
             (bitlen(man0) > prec and bc == prec and exp == exp0 + (bitlen(man0) - prec)
              and rounded_ok(man, man0, bitlen(man0) - prec, rnd, sign))))


def StripPost(man, exp, bc, man1, exp1, bc1):
    """trailing zero bits of man1 were moved into the exponent"""
    return (man >= 1 and man % 2 == 1 and exp >= exp1 and man * pow2(exp - exp1) == man1
            and bc1 - bc == exp - exp1)


NORMALIZE_GHOST = {
    ('if not man:', 0, 'before'): ['g_man0 = man', 'g_exp0 = exp'],
    ('n = bc - prec', 0, 'after'): ['lemma_pow2_add(prec, n)', 'lemma_pow2_add(prec - 1, n)'],
    ('bc = prec', 0, 'after'): ['lemma_bitlen_bounds(man, prec)'],
    ('if not man & 1:', 0, 'before'): [
        'cut NormMid(man, exp, bc, g_man0, g_exp0, sign, prec, rnd)',
        'g_man1 = man', 'g_exp1 = exp', 'g_bc1 = bc'],
    ('t = trailtable[int(man & 255)]', None, 'after'): ['split t 0 7'],
    ('man >>= t', None, 'before'): ['g_m = man'],
    ('man >>= t', None, 'after'): ['lemma_mul_eq(g_m, man * pow2(t), pow2(exp - g_exp1))'],
    ('exp += t', None, 'after'): [
        'lemma_mul_eq(pow2(exp - g_exp1), pow2(t) * pow2(exp - t - g_exp1), man)'],
    ('if man == 1:', 0, 'before'): [
        'cut StripPost(man, exp, bc, g_man1, g_exp1, g_bc1) and '
        'NormMid(g_man1, g_exp1, g_bc1, g_man0, g_exp0, sign, prec, rnd)',
        'lemma_bitlen_mul_pow2(man, exp - g_exp1)',
        'lemma_odd_pow2_unique(man, exp - g_exp1, 1, g_bc1)'],
}

STRIP_LOOP = dict(
    invariant=lambda man, exp, bc, man_in, exp_in, bc_in: (
        man >= 1 and exp >= exp_in and man * pow2(exp - exp_in) == man_in
        and bc_in - bc == exp - exp_in),
    decreases=lambda man: man)


@contract(M + '_normalize')
class _:
    shapes = dict(sign='int', man='int', exp='int', bc='int', prec='int')
    result = 'mpf'
    props = dict(wf=['C01'], bits=['C10'], value=['C02'])
    all_props = ['C01', 'C02', 'C10']

    def requires(sign, man, exp, bc, prec, rnd):
        return (sign == 0 or sign == 1) and man >= 0 and (man == 0 or (prec >= 1 and bc == bitlen(man)))

    def ensures_wf(sign, man, exp, bc, prec, rnd, result):
        return WFfin(result) and (man == 0 or result[0] == sign)

    def ensures_bits(sign, man, exp, bc, prec, rnd, result):
        return man == 0 or result[3] <= prec

    def ensures_value(sign, man, exp, bc, prec, rnd, result):
        return CRound(result, sign, man, exp, prec, rnd)

    loops = {0: STRIP_LOOP}
    ghost = NORMALIZE_GHOST


@contract(M + '_normalize1')
class _:
    """same as _normalize with the added precondition that man is odd or zero"""
    shapes = dict(sign='int', man='int', exp='int', bc='int', prec='int')
    result = 'mpf'
    props = dict(wf=['C01'], bits=['C10'], value=['C02'], exact=['C01', 'C02'])
    all_props = ['C01', 'C02', 'C10']

    def requires(sign, man, exp, bc, prec, rnd):
        return ((sign == 0 or sign == 1) and man >= 0
                and (man == 0 or (prec >= 1 and bc == bitlen(man) and man % 2 == 1)))

    def ensures_wf(sign, man, exp, bc, prec, rnd, result):
        return WFfin(result) and (man == 0 or result[0] == sign)

    def ensures_bits(sign, man, exp, bc, prec, rnd, result):
        return man == 0 or result[3] <= prec

    def ensures_value(sign, man, exp, bc, prec, rnd, result):
        return CRound(result, sign, man, exp, prec, rnd)

    def ensures_exact(sign, man, exp, bc, prec, rnd, result):
        return man == 0 or bc > prec or result == (sign, man, exp, bc)

    loops = {0: STRIP_LOOP}
    ghost = NORMALIZE_GHOST


# ------------------------------------------------------------------ construction
@contract(M + 'from_man_exp')
class _:
    shapes = dict(man='int', exp='int', prec='int')
    variants = [dict(prec=None)]
    none_as = dict(prec=0)
    result = 'mpf'
    props = dict(wf=['C01'], bits=['C10'], value=['C02'])
    all_props = ['C01', 'C02', 'C10']

    def requires(man, exp, prec, rnd):
        return prec is None or prec >= 0

    def ensures_wf(man, exp, prec, rnd, result):
        return WFfin(result)

    def ensures_bits(man, exp, prec, rnd, result):
        return prec is None or prec == 0 or result[3] <= prec

    def ensures_value(man, exp, prec, rnd, result):
        return CRoundOrExact(result, 1 if man < 0 else 0, -man if man < 0 else man, exp,
                             0 if prec is None else prec, rnd)

    loops = {0: STRIP_LOOP}
    ghost = {
        ('man = MPZ(man)', 0, 'before'): ['g_man0 = man'],
        ('if not man & 1:', 0, 'before'): ['g_man1 = man', 'g_exp1 = exp', 'g_bc1 = bc'],
        ('return (sign, man >> 1, exp + 1, bc - 1)', 0, 'before'): [
            'lemma_bitlen_mul_pow2(shr(man, 1), 1)'],
        ('t = trailtable[int(man & 255)]', None, 'after'): ['split t 0 7'],
        ('man >>= t', None, 'before'): ['g_m = man'],
        ('man >>= t', None, 'after'): ['lemma_mul_eq(g_m, man * pow2(t), pow2(exp - g_exp1))'],
        ('exp += t', None, 'after'): [
            'lemma_mul_eq(pow2(exp - g_exp1), pow2(t) * pow2(exp - t - g_exp1), man)'],
        ('return (sign, man, exp, bc)', 0, 'before'): [
            'cut (g_man1 >= 1 and g_bc1 == bitlen(g_man1) and (prec is None or prec == 0) and '
            'g_man1 == (-g_man0 if g_man0 < 0 else g_man0) and sign == (1 if g_man0 < 0 else 0) and '
            '(man == g_man1 and exp == g_exp1 and bc == g_bc1 and man % 2 == 1 or '
            ' StripPost(man, exp, bc, g_man1, g_exp1, g_bc1)))',
            'lemma_bitlen_mul_pow2(man, exp - g_exp1)'],
    }


@contract(M + 'from_int')
class _:
    shapes = dict(n='int', prec='int')
    result = 'mpf'
    props = dict(wf=['C01'], bits=['C10'], value=['C02'])
    all_props = ['C01', 'C02', 'C10']

    def requires(n, prec, rnd):
        return prec >= 0

    def ensures_wf(n, prec, rnd, result):
        return WFfin(result)

    def ensures_bits(n, prec, rnd, result):
        return prec == 0 or result[3] <= prec

    def ensures_value(n, prec, rnd, result):
        return CRoundOrExact(result, 1 if n < 0 else 0, -n if n < 0 else n, 0, prec, rnd)


# ------------------------------------------------------------------ sign manipulation
@contract(M + 'mpf_pos')
class _:
    shapes = dict(s='mpf', prec='int')
    result = 'mpf'
    props = dict(wf=['C01'], bits=['C10'], value=['C02'])
    all_props = ['C01', 'C02', 'C10']

    def requires(s, prec, rnd):
        return WF(s) and prec >= 0

    def ensures_wf(s, prec, rnd, result):
        return WF(result)

    def ensures_bits(s, prec, rnd, result):
        return prec == 0 or special(result) or result[3] <= prec

    def ensures_value(s, prec, rnd, result):
        return RoundOf(result, s, prec, rnd)


@contract(M + 'mpf_neg')
class _:
    shapes = dict(s='mpf', prec='int')
    variants = [dict(prec=None)]
    none_as = dict(prec=0)
    result = 'mpf'
    props = dict(wf=['C01'], bits=['C10'], value=['C02'])
    all_props = ['C01', 'C02', 'C10']

    def requires(s, prec, rnd):
        return WF(s) and (prec is None or prec >= 0)

    def ensures_wf(s, prec, rnd, result):
        return WF(result)

    def ensures_bits(s, prec, rnd, result):
        return prec is None or prec == 0 or special(result) or result[3] <= prec

    def ensures_value(s, prec, rnd, result):
        return RoundOf(result, neg_of(s), 0 if prec is None else prec, rnd)


@contract(M + 'mpf_abs')
class _:
    shapes = dict(s='mpf', prec='int')
    variants = [dict(prec=None)]
    none_as = dict(prec=0)
    result = 'mpf'
    props = dict(wf=['C01'], bits=['C10'], value=['C02'])
    all_props = ['C01', 'C02', 'C10']

    def requires(s, prec, rnd):
        return WF(s) and (prec is None or prec >= 0)

    def ensures_wf(s, prec, rnd, result):
        return WF(result)

    def ensures_bits(s, prec, rnd, result):
        return prec is None or prec == 0 or special(result) or result[3] <= prec

    def ensures_value(s, prec, rnd, result):
        return RoundOf(result, abs_of(s), 0 if prec is None else prec, rnd)


@contract(M + 'mpf_sign')
class _:
    shapes = dict(s='mpf')
    result = 'int'
    default_props = ['C05']
    all_props = ['C05']

    def requires(s):
        return WF(s)

    def ensures_sign(s, result):
        return result == sgn_of(s)


@contract(M + 'mpf_shift')
class _:
    """documented exact operation: multiply by 2**n"""
    shapes = dict(s='mpf', n='int')
    result = 'mpf'
    props = dict(wf=['C01'], value=['C39'])
    all_props = ['C01', 'C39']

    def requires(s, n):
        return WF(s)

    def ensures_wf(s, n, result):
        return WF(result)

    def ensures_value(s, n, result):
        return (s[1] == 0 and result == s) or (s[1] != 0 and result == (s[0], s[1], s[2] + n, s[3]))


# ------------------------------------------------------------------ multiplication
@contract(M + 'python_mpf_mul')
class _:
    shapes = dict(s='mpf', t='mpf', prec='int')
    result = 'mpf'
    props = dict(wf=['C01'], bits=['C10'], value=['C02'], exact=['C02', 'C04'])
    all_props = ['C01', 'C02', 'C10']

    def requires(s, t, prec, rnd):
        return WF(s) and WF(t) and prec >= 0

    def ensures_wf(s, t, prec, rnd, result):
        return WF(result)

    def ensures_bits(s, t, prec, rnd, result):
        return prec == 0 or special(result) or result[3] <= prec

    def ensures_value(s, t, prec, rnd, result):
        return ProdSpec(result, s, t, prec, rnd)

    def ensures_exact(s, t, prec, rnd, result):
        # with prec == 0 the product of finite values is returned exactly, as this very tuple
        return prec != 0 or is_nonfinite(s) or is_nonfinite(t) or result == exact_prod(s, t)

    ghost = {
        ('man = sman * tman', 0, 'after'): [
            'lemma_bitlen_mul(sman, tman)', 'lemma_shr_bitlen(man)', 'lemma_odd_mul(sman, tman)',
            'lemma_mul_pos(sman, tman)'],
    }


@contract(M + 'python_mpf_mul_int')
class _:
    search = 'mul_int_inputs'
    shapes = dict(s='mpf', n='int', prec='int')
    result = 'mpf'
    props = dict(wf=['C01'], bits=['C10'], value=['C02'])
    all_props = ['C01', 'C02', 'C10']

    def requires(s, n, prec, rnd):
        return WF(s) and prec >= 1

    def ensures_wf(s, n, prec, rnd, result):
        return WF(result)

    def ensures_bits(s, n, prec, rnd, result):
        return special(result) or result[3] <= prec

    def ensures_value(s, n, prec, rnd, result):
        return MulIntSpec(result, s, n, prec, rnd)

    ghost = {
        ('man *= n', 0, 'before'): ['g_m = man'],
        ('man *= n', 0, 'after'): ['lemma_bitlen_mul(g_m, n)', 'lemma_shr_bitlen(man)',
                                   'lemma_mul_pos(g_m, n)'],
    }


# ------------------------------------------------------------------ addition
@contract(M + 'mpf_add')
class _:
    shapes = dict(s='mpf', t='mpf', prec='int')
    enums = dict(_sub=(0, 1))
    result = 'mpf'
    props = dict(wf=['C01'], bits=['C10'], value=['C02'])
    all_props = ['C01', 'C02', 'C10']

    def requires(s, t, prec, rnd, _sub):
        return WF(s) and WF(t) and prec >= 0

    def ensures_wf(s, t, prec, rnd, _sub, result):
        return WF(result)

    def ensures_bits(s, t, prec, rnd, _sub, result):
        return prec == 0 or special(result) or result[3] <= prec

    def ensures_value(s, t, prec, rnd, _sub, result):
        return SumSpec(result, s, neg_of(t) if _sub else t, prec, rnd)

    # The far-exponent shortcut (|sexp - texp| > 100, operand tops more than prec+4 bits apart)
    # replaces the small operand by a sticky bit.  Its correctness is the sticky lemma; the
    # verifier does not decide it, so this sub-case is a bounded stand-in (see bounded.py).
    # Proof sketch that was worked out but not turned into hints (it needs a case split on sbc <= prec / sbc > prec,
    # on equal / opposite signs with the corner sman == 1, on the three mode families, twice for the mirrored
    # branch): with u = sman, k = prec+4, off = sexp-texp, the code rounds M' = u*2**k +- 1 at exponent sexp-k, the
    # spec rounds A = u*2**off +- tman at exponent texp; bitlen(A) - bitlen(M') = off - k, so both have the same rounding
    # exponent and the same integer R; writing W = 2**|sbc-prec|, for sbc <= prec the rounding boundaries R*P' are
    # multiples of 2**(sbc+4) which divides u*2**k, hence R = u*W (truncation) or u*W + 1 (away) for both, and for
    # sbc > prec the boundaries are multiples of W*2**k resp. W*2**off, between which u*2**k +- 1 and u*2**off +- tman
    # sit in corresponding gaps because 0 < tman < 2**(off-4).
    gaps = [dict(name='far-exponent sticky shortcut', clauses=['value'],
                 cond=lambda s, t, prec: FarApart(s, t, prec), gen='add_gap_inputs')]

    ghost = {
        ('tsign ^= _sub', 0, 'after'): ['split ssign 0 1', 'split tsign 0 1'],
        ('if offset > 100 and prec:', 0, 'before'): [
            'lemma_even_mul(sman, pow2(offset))', 'lemma_mul_pos(sman, pow2(offset))'],
        ('if offset < -100 and prec:', 0, 'before'): [
            'lemma_even_mul(tman, pow2(-offset))', 'lemma_mul_pos(tman, pow2(-offset))'],
        ('sman <<= offset', 0, 'before'): [
            'lemma_even_mul(sman, pow2(offset))', 'lemma_mul_pos(sman, pow2(offset))'],
        ('tman <<= offset', 0, 'before'): [
            'lemma_even_mul(tman, pow2(offset))', 'lemma_mul_pos(tman, pow2(offset))'],
    }


@contract(M + 'mpf_sub')
class _:
    shapes = dict(s='mpf', t='mpf', prec='int')
    result = 'mpf'
    props = dict(wf=['C01'], bits=['C10'], value=['C02'])
    all_props = ['C01', 'C02', 'C10']

    def requires(s, t, prec, rnd):
        return WF(s) and WF(t) and prec >= 0

    def ensures_wf(s, t, prec, rnd, result):
        return WF(result)

    def ensures_bits(s, t, prec, rnd, result):
        return prec == 0 or special(result) or result[3] <= prec

    def ensures_value(s, t, prec, rnd, result):
        return SumSpec(result, s, neg_of(t), prec, rnd)


# ------------------------------------------------------------------ comparison and hash
@contract(M + 'mpf_eq')
class _:
    shapes = dict(s='mpf', t='mpf')
    result = 'bool'
    default_props = ['C05', 'C01']
    all_props = ['C05', 'C01']

    def requires(s, t):
        return WF(s) and WF(t)

    def ensures_eq(s, t, result):
        # canonical values are numerically equal iff their tuples are equal (C01); nan is
        # unequal to everything
        return result == (s == t and s != fnan)


@contract(M + 'mpf_cmp')
class _:
    shapes = dict(s='mpf', t='mpf')
    result = 'int'
    search = 'two_mpf_inputs'
    default_props = ['C05']
    all_props = ['C05']

    def requires(s, t):
        return WF(s) and WF(t)

    def ensures_range(s, t, result):
        return result == -1 or result == 0 or result == 1

    def ensures_value(s, t, result):
        return s == fnan or t == fnan or CmpSpec(result, s, t)

    ghost = {
        ('tsign, tman, texp, tbc = t', 0, 'after'): ['split ssign 0 1', 'split tsign 0 1'],
        ('a = sbc + sexp', 0, 'before'): [
            'g_E = min(sexp, texp)',
            'lemma_pow2_add(sbc, sexp - g_E)', 'lemma_pow2_add(sbc - 1, sexp - g_E)',
            'lemma_pow2_add(tbc, texp - g_E)', 'lemma_pow2_add(tbc - 1, texp - g_E)',
            'lemma_mul_lt_r(sman, pow2(sbc), pow2(sexp - g_E))',
            'lemma_mul_le_r(pow2(sbc - 1), sman, pow2(sexp - g_E))',
            'lemma_mul_lt_r(tman, pow2(tbc), pow2(texp - g_E))',
            'lemma_mul_le_r(pow2(tbc - 1), tman, pow2(texp - g_E))',
            'lemma_odd_pow2_unique(sman, sexp - g_E, tman, texp - g_E)'],
    }


@contract(M + 'mpf_lt')
class _:
    shapes = dict(s='mpf', t='mpf')
    result = 'bool'
    default_props = ['C05']
    all_props = ['C05']

    def requires(s, t):
        return WF(s) and WF(t)

    def ensures_value(s, t, result):
        return result == (s != fnan and t != fnan and val_lt(s, t))


@contract(M + 'mpf_le')
class _:
    shapes = dict(s='mpf', t='mpf')
    result = 'bool'
    default_props = ['C05']
    all_props = ['C05']

    def requires(s, t):
        return WF(s) and WF(t)

    def ensures_value(s, t, result):
        return result == (s != fnan and t != fnan and not val_lt(t, s))


@contract(M + 'mpf_gt')
class _:
    shapes = dict(s='mpf', t='mpf')
    result = 'bool'
    default_props = ['C05']
    all_props = ['C05']

    def requires(s, t):
        return WF(s) and WF(t)

    def ensures_value(s, t, result):
        return result == (s != fnan and t != fnan and val_lt(t, s))


@contract(M + 'mpf_ge')
class _:
    shapes = dict(s='mpf', t='mpf')
    result = 'bool'
    default_props = ['C05']
    all_props = ['C05']

    def requires(s, t):
        return WF(s) and WF(t)

    def ensures_value(s, t, result):
        return result == (s != fnan and t != fnan and not val_lt(s, t))


@contract(M + 'mpf_hash')
class _:
    shapes = dict(s='mpf')
    result = 'int'
    search = 'one_mpf_inputs'
    default_props = ['C05']
    all_props = ['C05']

    def requires(s):
        return WF(s)

    def ensures_value(s, result):
        return HashSpec(result, s)


# ------------------------------------------------------------------ division
# Sticky lemma (general quotients of mpf_div / mpf_rdiv_int): the code rounds 2*q+1 where q = floor(N/D) and the
# remainder is not zero.  Chain of small facts, each proved as its own obligation, over the ghost names g_q (quotient),
# g_rem, g_D (divisor mantissa), g_E (exponent of q), g_sg (sign of the result) bound by the function's ghost code.
STICKY_POST = [
    'g_n = bitlen(g_q) - prec',
    'g_P = pow2(g_n)',
    'g_R = result[1] * pow2(result[2] - g_E - g_n)',
    'g_tr = rnd_trunc(rnd, g_sg)',
    'g_aw = rnd_away(rnd, g_sg)',
    'g_st = g_rem != 0',
    # --- remainder != 0: the code rounded 2q+1 with unit 2P at exponent E-1
    'lemma_pow2_succ(g_n)',
    'assert implies(g_st, pow2(bitlen(2 * g_q + 1) - prec) == 2 * g_P)',
    'g_P2 = pow2(bitlen(2 * g_q + 1) - prec)',
    'g_R2 = result[1] * pow2(result[2] - (g_E - 1) - (bitlen(2 * g_q + 1) - prec))',
    'assert implies(g_st, g_R2 == g_R)',
    'lemma_mul_eq2(g_R2, g_R, g_P2, 2 * g_P)',
    'assert implies(g_st, g_R2 * g_P2 == 2 * g_R * g_P)',
    'assert implies(g_st and g_tr, 2 * g_R * g_P <= 2 * g_q + 1 and 2 * g_q + 1 < 2 * g_R * g_P + 2 * g_P)',
    'assert implies(g_st and g_tr, g_R * g_P <= g_q and g_q + 1 <= g_R * g_P + g_P)',
    'assert implies(g_st and g_aw, 2 * g_R * g_P - 2 * g_P < 2 * g_q + 1 and 2 * g_q + 1 <= 2 * g_R * g_P)',
    'assert implies(g_st and g_aw, g_R * g_P - g_P <= g_q and g_q + 1 <= g_R * g_P)',
    'assert implies(g_st and not g_tr and not g_aw, -2 * g_P <= 4 * g_q + 2 - 4 * g_R * g_P and 4 * g_q + 2 - 4 * g_R * g_P <= 2 * g_P)',
    'assert implies(g_st and not g_tr and not g_aw, -g_P <= 2 * g_q - 2 * g_R * g_P and 2 * g_q - 2 * g_R * g_P <= g_P - 2)',
    # --- remainder == 0: the code rounded q itself with unit P at exponent E
    'assert implies(not g_st and g_tr, g_R * g_P <= g_q and g_q < g_R * g_P + g_P)',
    'assert implies(not g_st and g_aw, g_R * g_P - g_P < g_q and g_q <= g_R * g_P)',
    'assert implies(not g_st and not g_tr and not g_aw, -g_P <= 2 * g_q - 2 * g_R * g_P and 2 * g_q - 2 * g_R * g_P <= g_P)',
    'lemma_mul_le_r(2 * g_q - 2 * g_R * g_P, g_P, g_D)',
    'lemma_mul_cancel_eq(2 * g_q - 2 * g_R * g_P, g_P, g_D)',
    'lemma_mul_cancel_eq(2 * g_q - 2 * g_R * g_P, -g_P, g_D)',
    # --- times D (the instances name the products)
    'lemma_mul_le_r(g_R * g_P, g_q, g_D)',
    'lemma_mul_le_r(g_q + 1, g_R * g_P + g_P, g_D)',
    'lemma_mul_le_r(g_R * g_P - g_P, g_q, g_D)',
    'lemma_mul_le_r(g_q + 1, g_R * g_P, g_D)',
    'lemma_mul_lt_r(g_q, g_R * g_P + g_P, g_D)',
    'lemma_mul_lt_r(g_R * g_P - g_P, g_q, g_D)',
    'lemma_mul_le_r(g_q, g_R * g_P, g_D)',
    'lemma_mul_le_r(-g_P, 2 * g_q - 2 * g_R * g_P, g_D)',
    'lemma_mul_le_r(2 * g_q - 2 * g_R * g_P, g_P - 2, g_D)',
    'lemma_mul_eq(2 * g_q - 2 * g_R * g_P, 2 * g_q - 2 * g_R * g_P, g_D)',
]


@contract(M + 'mpf_div')
class _:
    search = 'div_inputs'
    shapes = dict(s='mpf', t='mpf', prec='int')
    result = 'mpf'
    props = dict(wf=['C01'], bits=['C10'], value=['C02'])
    all_props = ['C01', 'C02', 'C10']
    raises = dict(ZeroDivisionError=lambda t: t == fzero)

    def requires(s, t, prec, rnd):
        return WF(s) and WF(t) and prec >= 1

    def ensures_wf(s, t, prec, rnd, result):
        return WF(result)

    def ensures_bits(s, t, prec, rnd, result):
        return special(result) or result[3] <= prec

    def ensures_value(s, t, prec, rnd, result):
        return QuotSpec(result, s, t, prec, rnd)

    # General quotients (divisor mantissa != 1): the code rounds 2*floor(N/D)+1 (a sticky bit);
    # that this rounds like N/D itself is the sticky lemma, which the verifier does not decide
    # (attempted with product/cancellation hints: z3 and cvc5 time out).  Bounded stand-in.
    gaps = []

    # General quotients: the code rounds 2*q+1 (q = floor(N/D), remainder != 0, a sticky bit one place below q).
    # Sticky lemma, proved here with hints: q has at least prec+5 bits, so the rounding unit 2**n of q is even
    # and the open interval (q, q+1) that contains N/D holds no rounding boundary and no tie point.
    ghost = {
        ('tsign, tman, texp, tbc = t', 0, 'after'): ['split ssign 0 1', 'split tsign 0 1'],
        ('quot, rem = divmod(sman << extra, tman)', 0, 'after'): [
            'g_q = quot', 'g_rem = rem', 'g_D = tman', 'g_E = sexp - texp - extra', 'g_x = extra', 'g_sg = sign',
            # N >= 2**(sbc-1+extra) >= 2**(prec+4+tbc) > (2**(prec+4)) * tman  ==>  q >= 2**(prec+4)
            'lemma_pow2_add(sbc - 1, g_x)',
            'lemma_mul_le_r(pow2(sbc - 1), sman, pow2(g_x))',
            'lemma_pow2_add(prec + 4, tbc)',
            'lemma_pow2_le(prec + 4 + tbc, sbc - 1 + g_x)',
            'lemma_mul_le_r(quot + 1, pow2(prec + 4), tman)',
            'lemma_mul_lt_r(tman, pow2(tbc), pow2(prec + 4))',
            'assert quot >= pow2(prec + 4)',
            'lemma_bitlen_ge(quot, prec + 4)',
            'lemma_bitlen_2x1(quot)',
        ],
    }
    post_hints = STICKY_POST


@contract(M + 'mpf_rdiv_int')
class _:
    search = 'rdiv_inputs'
    shapes = dict(n='int', t='mpf', prec='int')
    result = 'mpf'
    props = dict(wf=['C01'], bits=['C10'], value=['C02'])
    all_props = ['C01', 'C02', 'C10']
    raises = dict(ZeroDivisionError=lambda t: t == fzero)

    def requires(n, t, prec, rnd):
        return WF(t) and prec >= 1

    def ensures_wf(n, t, prec, rnd, result):
        return WF(result)

    def ensures_bits(n, t, prec, rnd, result):
        return special(result) or result[3] <= prec

    def ensures_value(n, t, prec, rnd, result):
        return RDivIntSpec(result, n, t, prec, rnd)

    gaps = []
    ghost = {
        ('sign, man, exp, bc = t', 0, 'after'): ['split sign 0 1'],
        ('quot, rem = divmod(n << extra, man)', 0, 'after'): [
            'g_q = quot', 'g_rem = rem', 'g_D = man', 'g_E = -exp - extra', 'g_sg = sign',
            # N = n * 2**extra >= 2**(prec+5+bc) > 2**(prec+5) * man  ==>  q >= 2**(prec+5)
            'lemma_pow2_add(prec + 5, bc)',
            'lemma_mul_le_r(1, n, pow2(extra))',
            'lemma_mul_le_r(quot + 1, pow2(prec + 5), man)',
            'lemma_mul_lt_r(man, pow2(bc), pow2(prec + 5))',
            'assert quot >= pow2(prec + 5)',
            'lemma_pow2_le(prec + 4, prec + 5)',
            'lemma_bitlen_ge(quot, prec + 5)',
            'lemma_bitlen_2x1(quot)',
        ],
    }
    post_hints = STICKY_POST


@contract(M + 'from_rational')
class _:
    shapes = dict(p='int', q='int', prec='int')
    result = 'mpf'
    props = dict(wf=['C01'], bits=['C10'])
    all_props = ['C01', 'C02', 'C10']
    raises = dict(ZeroDivisionError=lambda q: q == 0)

    def requires(p, q, prec, rnd):
        return prec >= 1

    def ensures_wf(p, q, prec, rnd, result):
        return WFfin(result)

    def ensures_bits(p, q, prec, rnd, result):
        return result[3] <= prec or result == fzero


# ------------------------------------------------------------------ integer parts, conversion to int
@contract(M + 'round_int')
class _:
    shapes = dict(x='int', n='int')
    result = 'int'
    default_props = ['C06']
    all_props = ['C06']

    def requires(x, n, rnd):
        return n >= 1

    def ensures_value(x, n, rnd, result):
        return (x >= 0 and result >= 0 and rounded_ok(result, x, n, rnd, 0)) or \
               (x < 0 and result <= 0 and rounded_ok(-result, -x, n, rnd, 1))



@contract(M + 'to_int')
class _:
    shapes = dict(s='mpf')
    enums = dict(rnd=(None, 'n', 'f', 'c', 'u', 'd'))
    result = 'int'
    default_props = ['C06']
    all_props = ['C06']
    raises = dict(ValueError=lambda s: is_nonfinite(s))

    def requires(s, rnd):
        return WF(s)

    def ensures_value(s, rnd, result):
        return ToIntSpec(result, s, rnd)


@contract(M + 'to_man_exp')
class _:
    shapes = dict(s='mpf')
    result = ('tuple', 'int', 'int')
    default_props = ['C39']
    all_props = ['C39']
    raises = dict(ValueError=lambda s: is_nonfinite(s))

    def requires(s):
        return WF(s)

    def ensures_value(s, result):
        return result == (s[1], s[2])


@contract(M + 'mpf_round_int')
class _:
    shapes = dict(s='mpf')
    enums = dict(rnd=('n', 'f', 'c'))
    result = 'mpf'
    props = dict(wf=['C01', 'C06'], value=['C06'])
    all_props = ['C06', 'C01']

    def requires(s, rnd):
        return WF(s)

    def ensures_wf(s, rnd, result):
        return WF(result)

    def ensures_value(s, rnd, result):
        return RoundIntSpec(result, s, rnd)

    ghost = {('mag = exp + bc', 0, 'after'): ['lemma_pow2_add(bc, -exp - bc)', 'lemma_pow2_add(bc - 1, -exp - bc + 1)',
                                               'lemma_pow2_succ(-exp - 1)']}


def _round_int_contract(mode):
    class K:
        shapes = dict(s='mpf', prec='int')
        result = 'mpf'
        props = dict(wf=['C01', 'C06'], bits=['C10'], value=['C06'])
        all_props = ['C06', 'C01', 'C10']

        def requires(s, prec, rnd):
            return WF(s) and prec >= 0

        def ensures_wf(s, prec, rnd, result):
            return WF(result)

        def ensures_bits(s, prec, rnd, result):
            return prec == 0 or special(result) or result[3] <= prec
    return K


@contract(M + 'mpf_floor')
class _(_round_int_contract('f')):
    def ensures_value(s, prec, rnd, result):
        return prec != 0 or RoundIntSpec(result, s, 'f')


@contract(M + 'mpf_ceil')
class _(_round_int_contract('c')):
    def ensures_value(s, prec, rnd, result):
        return prec != 0 or RoundIntSpec(result, s, 'c')


@contract(M + 'mpf_nint')
class _(_round_int_contract('n')):
    def ensures_value(s, prec, rnd, result):
        return prec != 0 or RoundIntSpec(result, s, 'n')


@contract(M + 'mpf_frac')
class _:
    shapes = dict(s='mpf', prec='int')
    result = 'mpf'
    props = dict(wf=['C01', 'C06'], bits=['C10'], value=['C06'])
    all_props = ['C06', 'C01', 'C10']
    search = 'frac_inputs'

    def requires(s, prec, rnd):
        return WF(s) and prec >= 0

    def ensures_wf(s, prec, rnd, result):
        return WF(result)

    def ensures_bits(s, prec, rnd, result):
        return prec == 0 or special(result) or result[3] <= prec

    def ensures_value(s, prec, rnd, result):
        return FracSpec(result, s, prec, rnd)

    ghost = {('return mpf_sub(s, mpf_floor(s), prec, rnd)', 0, 'before'):
             ['case s[1] == 0', 'case s[2] >= 0', 'case s[0] == 0', 'case prec == 0'],
             ('return mpf_sub(s, mpf_floor(s), prec, rnd)', 0, 'call:mpf_floor'):
             ['case g_call_mpf_floor[1] == 0']}
    # the floor F returned by mpf_floor is the quotient of the signed mantissa by 2**-exp
    post_hints = ['g_S = (1 - 2 * s[0]) * s[1]',
                  'g_q = shr(g_S, -s[2])',
                  'g_r = lowbits(g_S, -s[2])',
                  'g_F = (1 - 2 * g_call_mpf_floor[0]) * g_call_mpf_floor[1] * pow2(g_call_mpf_floor[2])',
                  'lemma_pow2_add(g_call_mpf_floor[2], -s[2])',
                  'lemma_mul_assoc3(g_call_mpf_floor[1], pow2(g_call_mpf_floor[2]), pow2(-s[2]))',
                  'lemma_div_bounds(g_S, g_q, g_r, pow2(-s[2]), g_F, g_F + 1)',
                  'lemma_mul_eq(g_q, g_F, pow2(-s[2]))',
                  'assert s[1] == 0 or s[2] >= 0 or g_call_mpf_floor[1] == 0 or g_S - (1 - 2 * g_call_mpf_floor[0]) '
                  '* g_call_mpf_floor[1] * pow2(g_call_mpf_floor[2] - s[2]) == g_r']


@contract(M + 'to_rational')
class _:
    shapes = dict(s='mpf')
    result = ('tuple', 'int', 'int')
    default_props = ['C06']
    all_props = ['C06']
    raises = dict(ValueError=lambda s: s == fnan)

    def requires(s):
        return WF(s) and s != finf and s != fninf

    def ensures_value(s, result):
        return (s[2] >= 0 and result == ((1 - 2 * s[0]) * s[1] * pow2(s[2]), 1)) or \
               (s[2] < 0 and result == ((1 - 2 * s[0]) * s[1], pow2(-s[2])))


@contract(M + 'mpf_frexp')
class _:
    shapes = dict(x='mpf')
    result = ('tuple', 'mpf', 'int')
    default_props = ['C39']
    all_props = ['C39']
    raises = dict(ValueError=lambda x: is_nonfinite(x))

    def requires(x):
        return WF(x)

    def ensures_value(x, result):
        # x == y * 2**n exactly with |y| in [1/2, 1): y keeps the mantissa, exponent -bc
        return (x == fzero and result == (fzero, 0)) or \
               (x[1] != 0 and result == ((x[0], x[1], -x[3], x[3]), x[3] + x[2]))


@contract(M + 'mpf_mod')
class _:
    search = 'mod_inputs'
    shapes = dict(s='mpf', t='mpf', prec='int')
    result = 'mpf'
    props = dict(wf=['C01', 'C06'], bits=['C10', 'C06'], value=['C06'])
    all_props = ['C06', 'C01', 'C10']
    raises = dict(ZeroDivisionError=lambda s, t: t == fzero and not is_nonfinite(s))

    def requires(s, t, prec, rnd):
        return WF(s) and WF(t) and prec >= 1

    def ensures_wf(s, t, prec, rnd, result):
        return WF(result)

    def ensures_bits(s, t, prec, rnd, result):
        return special(result) or result[3] <= prec

    def ensures_value(s, t, prec, rnd, result):
        return ModSpec(result, s, t, prec, rnd)

    ghost = {('tsign, tman, texp, tbc = t', 0, 'after'): ['split ssign 0 1', 'split tsign 0 1']}


@contract(M + 'mpf_perturb')
class _:
    """x + eps with directed rounding (eps tiny, of the given sign); only canonical form and the
    precision bound are under contract here"""
    shapes = dict(x='mpf', eps_sign='int', prec='int')
    result = 'mpf'
    props = dict(wf=['C01'], bits=['C10'])
    all_props = ['C01', 'C10']

    def requires(x, eps_sign, prec, rnd):
        return WFfin(x) and x[1] != 0 and (eps_sign == 0 or eps_sign == 1) and prec >= 1

    def ensures_wf(x, eps_sign, prec, rnd, result):
        return WF(result)

    def ensures_bits(x, eps_sign, prec, rnd, result):
        return special(result) or result[3] <= prec

    ghost = {('sign, man, exp, bc = x', 0, 'after'): ['split eps_sign 0 1']}


# ------------------------------------------------------------------ gmpy-backend twins written in Python (C37)
# The Python-source gmpy_* variants are proved against the *same* contract as their python_*
# twins (with bitcount's contract standing for gmpy's bit_length / numdigits(2)); since the
# contract determines the result tuple (spec lemma cround_deterministic), both back ends return
# bit-identical results for these routines.
@contract(M + 'gmpy_mpf_mul')
class _:
    shapes = dict(s='mpf', t='mpf', prec='int')
    result = 'mpf'
    props = dict(wf=['C37'], bits=['C37'], value=['C37'], exact=['C37'])
    all_props = ['C37']

    def requires(s, t, prec, rnd):
        return WF(s) and WF(t) and prec >= 0

    def ensures_wf(s, t, prec, rnd, result):
        return WF(result)

    def ensures_bits(s, t, prec, rnd, result):
        return prec == 0 or special(result) or result[3] <= prec

    def ensures_value(s, t, prec, rnd, result):
        return ProdSpec(result, s, t, prec, rnd)

    def ensures_exact(s, t, prec, rnd, result):
        return prec != 0 or is_nonfinite(s) or is_nonfinite(t) or result == exact_prod(s, t)

    ghost = {
        ('man = sman * tman', 0, 'after'): ['lemma_odd_mul(sman, tman)', 'lemma_mul_pos(sman, tman)'],
    }


@contract(M + 'gmpy_mpf_mul_int')
class _:
    search = 'mul_int_inputs'
    shapes = dict(s='mpf', n='int', prec='int')
    result = 'mpf'
    props = dict(wf=['C37'], bits=['C37'], value=['C37'])
    all_props = ['C37']

    def requires(s, n, prec, rnd):
        return WF(s) and prec >= 1

    def ensures_wf(s, n, prec, rnd, result):
        return WF(result)

    def ensures_bits(s, n, prec, rnd, result):
        return special(result) or result[3] <= prec

    def ensures_value(s, n, prec, rnd, result):
        return MulIntSpec(result, s, n, prec, rnd)

    ghost = {
        ('man *= n', 0, 'before'): ['g_m = man'],
        ('man *= n', 0, 'after'): ['lemma_mul_pos(g_m, n)'],
    }


# ------------------------------------------------------------------ square root
# mpf_sqrt scales the (even-exponent) mantissa to M = man * 2**shift with >= 2*prec+4 bits, takes y = isqrt(M)
# and rounds y (floor / down modes) or, when M is not a perfect square, the sticky value 2*y+1 one place lower.
# The contract states correct rounding on squares (spec.sq_ok); the proof is the sticky argument of mpf_div
# transported through monotonicity of squaring.
SQRT_POST = [
    'g_n = bitlen(g_y) - prec',
    'g_P = pow2(g_n)',
    'g_R = result[1] * pow2(result[2] - g_E - g_n)',
    'g_tr = (rnd == "f" or rnd == "d")',
    'g_aw = (rnd == "c" or rnd == "u")',
    'lemma_pow2_succ(g_n)',
    'lemma_sq_expand(g_y)',
    # --- sticky branch (not a perfect square; modes c, u, n): the code rounded 2y+1 with unit 2P at exponent E-1
    'g_P2 = pow2(bitlen(2 * g_y + 1) - prec)',
    'g_R2 = result[1] * pow2(result[2] - (g_E - 1) - (bitlen(2 * g_y + 1) - prec))',
    'assert implies(g_st, g_P2 == 2 * g_P)',
    'assert implies(g_st, g_R2 == g_R)',
    'lemma_mul_eq2(g_R2, g_R, g_P2, 2 * g_P)',
    'assert implies(g_st, g_R2 * g_P2 == 2 * g_R * g_P)',
    'assert implies(g_st and g_aw, 2 * g_R * g_P - 2 * g_P < 2 * g_y + 1 and 2 * g_y + 1 <= 2 * g_R * g_P)',
    'assert implies(g_st and g_aw, g_R * g_P - g_P <= g_y and g_y + 1 <= g_R * g_P)',
    'assert implies(g_st and not g_tr and not g_aw, -2 * g_P <= 4 * g_y + 2 - 4 * g_R * g_P and 4 * g_y + 2 - 4 * g_R * g_P <= 2 * g_P)',
    'assert implies(g_st and not g_tr and not g_aw, -g_P <= 2 * g_y - 2 * g_R * g_P and 2 * g_y - 2 * g_R * g_P <= g_P - 2)',
    # --- exact branch (perfect square, or floor / down modes): the code rounded y itself with unit P at exponent E
    'assert implies(not g_st and g_tr, g_R * g_P <= g_y and g_y + 1 <= g_R * g_P + g_P)',
    'assert implies(not g_st and g_aw, g_R * g_P - g_P < g_y and g_y <= g_R * g_P)',
    'assert implies(not g_st and not g_tr and not g_aw, -g_P <= 2 * g_y - 2 * g_R * g_P and 2 * g_y - 2 * g_R * g_P <= g_P)',
    'assert g_R * g_P >= g_P',
    # --- squares
    'lemma_sq_mono(g_R * g_P, g_y)',
    'lemma_sq_mono(g_y + 1, g_R * g_P + g_P)',
    'lemma_sq_mono(g_R * g_P - g_P, g_y)',
    'lemma_sq_mono_lt(g_R * g_P - g_P, g_y)',
    'lemma_sq_mono(g_y + 1, g_R * g_P)',
    'lemma_sq_mono(g_y, g_R * g_P)',
    'lemma_sq_mono(2 * g_R * g_P - g_P, 2 * g_y)',
    'lemma_sq_mono(2 * g_y + 2, 2 * g_R * g_P + g_P)',
    'lemma_sq_mono(2 * g_y, 2 * g_R * g_P + g_P)',
    'lemma_sq_cancel(2 * g_R * g_P - g_P, 2 * g_y)',
    'lemma_sq_cancel(2 * g_R * g_P + g_P, 2 * g_y)',
]


@contract(M + 'mpf_sqrt')
class _:
    shapes = dict(s='mpf', prec='int')
    result = 'mpf'
    props = dict(wf=['C01', 'C02'], bits=['C10', 'C02'], value=['C02', 'C13'])
    all_props = ['C02', 'C01', 'C10', 'C13']
    raises = dict(ComplexResult=lambda s: s[0] == 1)
    search = 'sqrt_inputs'
    # Floor / down modes are discharged deductively.  For ceiling / up / nearest the code rounds the sticky value
    # 2*isqrt(M)+1; the chain of facts in SQRT_POST proves conjunct by conjunct in isolation but not within the solver
    # budget of a check run, so these three modes are a declared gap (bounded stand-in, never counted as proved).
    gaps = [dict(name='sticky square root (modes c, u, n)', clauses=['value'],
                 cond=lambda s, rnd: rnd != 'f' and rnd != 'd' and s[1] != 0,
                 gen='sqrt_inputs')]

    def requires(s, prec, rnd):
        return WF(s) and prec >= 1

    def ensures_wf(s, prec, rnd, result):
        return WF(result)

    def ensures_bits(s, prec, rnd, result):
        return special(result) or result[3] <= prec

    def ensures_value(s, prec, rnd, result):
        return SqrtSpec(result, s, prec, rnd)

    ghost = {
        ('shift = max(4, 2 * prec - bc + 4)', 0, 'before'): ['case 2 * prec - bc + 4 < 4'],
        ('shift += shift & 1', 0, 'before'): ['case shift % 2 == 0'],
        ('shift += shift & 1', 0, 'after'): [
            'g_M = man * pow2(shift)', 'g_E = fdiv(exp - shift, 2)', 'g_st = False',
            'assert shift % 2 == 0 and exp % 2 == 0',
            'assert 2 * g_E == exp - shift',
            # M has bc + shift >= 2*prec+4 bits, so y = isqrt(M) >= 2**(prec+1)
            'lemma_pow2_add(bc - 1, shift)',
            'lemma_mul_le_r(pow2(bc - 1), man, pow2(shift))',
            'lemma_pow2_le(2 * prec + 2, bc - 1 + shift)',
            'lemma_pow2_add(prec + 1, prec + 1)',
        ],
        ('man = isqrt(man << shift)', 0, 'after'): [
            'g_y = man',
            'lemma_sq_mono(g_y + 1, pow2(prec + 1))',
            'assert g_y >= pow2(prec + 1)',
            'lemma_bitlen_ge(g_y, prec + 1)',
        ],
        ('man, rem = sqrtrem(man << shift)', 0, 'after'): [
            'g_y = man', 'g_st = rem != 0',
            'lemma_sq_mono(g_y + 1, pow2(prec + 1))',
            'assert g_y >= pow2(prec + 1)',
            'lemma_bitlen_ge(g_y, prec + 1)',
            'lemma_bitlen_2x1(g_y)',
        ],
    }
    post_hints = SQRT_POST

"""Proof harnesses: tiny functions that only *compose real mpmath functions* (which are inlined
from their real source); the contract is on the composition (round trips, pair protocols)."""
from mpmath.libmp.libmpf import to_pickable, from_pickable


def pickle_roundtrip(x):
    return from_pickable(to_pickable(x))

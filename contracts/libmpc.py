"""Contracts for mpmath.libmp.libmpc (complex arithmetic, C04 / C01 / C10): each component of the
result is the correctly rounded value of the exact component."""
from pyvc.contract import contract
from pyvc.spec import *          # noqa: F401,F403
from pyvc.lemmalib import *      # noqa: F401,F403

M = 'mpmath.libmp.libmpc.'
PROPS3 = dict(wf=['C01', 'C04'], bits=['C10', 'C04'], value=['C04'])
ALL3 = ['C04', 'C01', 'C10']


@contract(M + 'mpc_add')
class _:
    search = 'two_mpc_inputs'
    shapes = dict(z='mpc', w='mpc', prec='int')
    result = 'mpc'
    props = PROPS3
    all_props = ALL3

    def requires(z, w, prec, rnd):
        return WFc(z) and WFc(w) and prec >= 0

    def ensures_wf(z, w, prec, rnd, result):
        return WFc(result)

    def ensures_bits(z, w, prec, rnd, result):
        return bits_ok(result[0], prec) and bits_ok(result[1], prec)

    def ensures_value(z, w, prec, rnd, result):
        return SumSpec(result[0], z[0], w[0], prec, rnd) and SumSpec(result[1], z[1], w[1], prec, rnd)


@contract(M + 'mpc_sub')
class _:
    search = 'two_mpc_inputs'
    shapes = dict(z='mpc', w='mpc', prec='int')
    result = 'mpc'
    props = PROPS3
    all_props = ALL3

    def requires(z, w, prec, rnd):
        return WFc(z) and WFc(w) and prec >= 0

    def ensures_wf(z, w, prec, rnd, result):
        return WFc(result)

    def ensures_bits(z, w, prec, rnd, result):
        return bits_ok(result[0], prec) and bits_ok(result[1], prec)

    def ensures_value(z, w, prec, rnd, result):
        return (SumSpec(result[0], z[0], neg_of(w[0]), prec, rnd)
                and SumSpec(result[1], z[1], neg_of(w[1]), prec, rnd))


@contract(M + 'mpc_add_mpf')
class _:
    search = 'mpc_mpf_inputs'
    """z + x for real x: the real part is the rounded sum, the imaginary part is the imaginary
    part of z rounded to the working precision (C04: "z+x (x real)" is correctly rounded per
    component; C10: no more bits than the working precision)"""
    shapes = dict(z='mpc', x='mpf', prec='int')
    result = 'mpc'
    props = PROPS3
    all_props = ALL3

    def requires(z, x, prec, rnd):
        return WFc(z) and WF(x) and prec >= 1

    def ensures_wf(z, x, prec, rnd, result):
        return WFc(result)

    def ensures_bits(z, x, prec, rnd, result):
        return bits_ok(result[0], prec) and bits_ok(result[1], prec)

    def ensures_value(z, x, prec, rnd, result):
        return SumSpec(result[0], z[0], x, prec, rnd) and RoundOf(result[1], z[1], prec, rnd)


@contract(M + 'mpc_sub_mpf')
class _:
    search = 'mpc_mpf_inputs'
    shapes = dict(z='mpc', p='mpf', prec='int')
    result = 'mpc'
    props = PROPS3
    all_props = ALL3

    def requires(z, p, prec, rnd):
        return WFc(z) and WF(p) and prec >= 1

    def ensures_wf(z, p, prec, rnd, result):
        return WFc(result)

    def ensures_bits(z, p, prec, rnd, result):
        return bits_ok(result[0], prec) and bits_ok(result[1], prec)

    def ensures_value(z, p, prec, rnd, result):
        return SumSpec(result[0], z[0], neg_of(p), prec, rnd) and RoundOf(result[1], z[1], prec, rnd)


@contract(M + 'mpc_pos')
class _:
    search = 'one_mpc_inputs'
    shapes = dict(z='mpc', prec='int')
    result = 'mpc'
    props = PROPS3
    all_props = ALL3

    def requires(z, prec, rnd):
        return WFc(z) and prec >= 0

    def ensures_wf(z, prec, rnd, result):
        return WFc(result)

    def ensures_bits(z, prec, rnd, result):
        return bits_ok(result[0], prec) and bits_ok(result[1], prec)

    def ensures_value(z, prec, rnd, result):
        return RoundOf(result[0], z[0], prec, rnd) and RoundOf(result[1], z[1], prec, rnd)


@contract(M + 'mpc_neg')
class _:
    search = 'one_mpc_inputs'
    shapes = dict(z='mpc', prec='int')
    variants = [dict(prec=None)]
    result = 'mpc'
    props = PROPS3
    all_props = ALL3

    def requires(z, prec, rnd):
        return WFc(z) and (prec is None or prec >= 0)

    def ensures_wf(z, prec, rnd, result):
        return WFc(result)

    def ensures_bits(z, prec, rnd, result):
        return prec is None or (bits_ok(result[0], prec) and bits_ok(result[1], prec))

    def ensures_value(z, prec, rnd, result):
        return (RoundOf(result[0], neg_of(z[0]), 0 if prec is None else prec, rnd)
                and RoundOf(result[1], neg_of(z[1]), 0 if prec is None else prec, rnd))


@contract(M + 'mpc_conjugate')
class _:
    search = 'one_mpc_inputs'
    """the conjugate, rounded to the working precision in both components"""
    shapes = dict(z='mpc', prec='int')
    result = 'mpc'
    props = PROPS3
    all_props = ALL3

    def requires(z, prec, rnd):
        return WFc(z) and prec >= 1

    def ensures_wf(z, prec, rnd, result):
        return WFc(result)

    def ensures_bits(z, prec, rnd, result):
        return bits_ok(result[0], prec) and bits_ok(result[1], prec)

    def ensures_value(z, prec, rnd, result):
        return RoundOf(result[0], z[0], prec, rnd) and RoundOf(result[1], neg_of(z[1]), prec, rnd)


@contract(M + 'mpc_mul')
class _:
    search = 'two_mpc_inputs'
    shapes = dict(z='mpc', w='mpc', prec='int')
    result = 'mpc'
    props = PROPS3
    all_props = ALL3

    def requires(z, w, prec, rnd):
        return WFcfin(z) and WFcfin(w) and prec >= 1

    def ensures_wf(z, w, prec, rnd, result):
        return WFc(result)

    def ensures_bits(z, w, prec, rnd, result):
        return bits_ok(result[0], prec) and bits_ok(result[1], prec)

    def ensures_value(z, w, prec, rnd, result):
        # re = round(a*c - b*d), im = round(a*d + b*c) with the products exact
        return (SumSpec(result[0], exact_prod(z[0], w[0]), neg_of(exact_prod(z[1], w[1])), prec, rnd)
                and SumSpec(result[1], exact_prod(z[0], w[1]), exact_prod(z[1], w[0]), prec, rnd))

    ghost = {('c, d = w', 0, 'after'): ['case a[1] == 0', 'case b[1] == 0', 'case c[1] == 0', 'case d[1] == 0']}


@contract(M + 'mpc_mul_mpf')
class _:
    search = 'mpc_mpf_inputs'
    shapes = dict(z='mpc', p='mpf', prec='int')
    result = 'mpc'
    props = PROPS3
    all_props = ALL3

    def requires(z, p, prec, rnd):
        return WFc(z) and WF(p) and prec >= 1

    def ensures_wf(z, p, prec, rnd, result):
        return WFc(result)

    def ensures_bits(z, p, prec, rnd, result):
        return bits_ok(result[0], prec) and bits_ok(result[1], prec)

    def ensures_value(z, p, prec, rnd, result):
        return ProdSpec(result[0], z[0], p, prec, rnd) and ProdSpec(result[1], z[1], p, prec, rnd)


@contract(M + 'mpc_mul_int')
class _:
    search = 'mpc_int_inputs'
    shapes = dict(z='mpc', n='int', prec='int')
    result = 'mpc'
    props = PROPS3
    all_props = ALL3

    def requires(z, n, prec, rnd):
        return WFc(z) and prec >= 1

    def ensures_wf(z, n, prec, rnd, result):
        return WFc(result)

    def ensures_bits(z, n, prec, rnd, result):
        return bits_ok(result[0], prec) and bits_ok(result[1], prec)

    def ensures_value(z, n, prec, rnd, result):
        return MulIntSpec(result[0], z[0], n, prec, rnd) and MulIntSpec(result[1], z[1], n, prec, rnd)


@contract(M + 'mpc_shift')
class _:
    shapes = dict(z='mpc', n='int')
    result = 'mpc'
    props = dict(wf=['C01', 'C04'])
    all_props = ['C01', 'C04']

    def requires(z, n):
        return WFc(z)

    def ensures_wf(z, n, result):
        return WFc(result)


@contract(M + 'mpc_hash')
class _:
    shapes = dict(z='mpc')
    result = 'int'
    default_props = ['C05']
    all_props = ['C05']

    def requires(z):
        return WFc(z)

    def ensures_value(z, result):
        # result == complex hash of (hash(re), hash(im)); the hashes of the parts are the
        # values HashSpec determines (mpf_hash's contract)
        return HashOfComplex(result, z)

"""Dynamic fault-injection drivers for replaying precision-frame violations on the real code:
each scenario calls a public entry point in a way that makes an internal computation or a user
callback raise (or takes an unusual path); the replay compares mp.prec before and after."""


def _raiser(k):
    state = {'n': 0}

    def f(*a, **kw):
        state['n'] += 1
        if state['n'] >= k:
            raise ZeroDivisionError('injected')
        return 1
    return f


def _s(doc, fn):
    fn.__doc__ = doc
    return fn


DRIVERS = {
    'rs_z': [_s('mp.rs_z(100) (raises NotImplementedError internally)', lambda mp: mp.rs_z(mp.mpf(100)))],
    'rs_zeta': [_s('mp.rs_zeta(0.5+100j)', lambda mp: mp.rs_zeta(mp.mpc(0.5, 100)))],
    'invertlaplace': [
        _s('invertlaplace with a normal callback', lambda mp: mp.invertlaplace(lambda p: 1 / (p + 1), 1.0)),
        _s('invertlaplace with a raising callback', lambda mp: mp.invertlaplace(_raiser(3), 1.0)),
        _s('invertlaplace talbot, raising callback', lambda mp: mp.invertlaplace(_raiser(2), 1.0, method='talbot')),
        _s('invertlaplace stehfest, raising callback', lambda mp: mp.invertlaplace(_raiser(2), 1.0, method='stehfest'))],
    'lambertw': [_s('lambertw with exp patched to raise',
                    lambda mp: _with_patch(mp, 'exp', _raiser(1), lambda: mp.lambertw(mp.mpf(10)))),
                 _s('lambertw(10)', lambda mp: mp.lambertw(mp.mpf(10)))],
    'nzeros': [_s('nzeros with siegelz patched to raise',
                  lambda mp: _with_patch(mp, 'siegelz', _raiser(1), lambda: mp.nzeros(30))),
               _s('nzeros(30)', lambda mp: mp.nzeros(30))],
    'quad': [_s('quad with raising integrand', lambda mp: mp.quad(_raiser(5), [0, 1]))],
    'findroot': [_s('findroot with raising function', lambda mp: mp.findroot(_raiser(3), 1.0))],
    'diff': [_s('diff with raising function', lambda mp: mp.diff(_raiser(2), 1.0))],
    'nsum': [_s('nsum with raising term', lambda mp: mp.nsum(_raiser(7), [1, mp.inf]))],
    'jtheta': [_s('jtheta with cos_sin patched to raise',
                  lambda mp: _with_patch(mp, 'cos_sin', _raiser(1), lambda: mp.jtheta(2, mp.mpc(1, 2), mp.mpf('0.3'))))],
    'polyroots': [_s('polyroots failing to converge', lambda mp: mp.polyroots([1, 0, 0, 0, 0, 1], maxsteps=1))],
    'taylor': [_s('taylor with raising function', lambda mp: mp.taylor(_raiser(2), 0, 3))],
    'odefun': [_s('odefun with raising function', lambda mp: mp.odefun(_raiser(2), 0, 1)(1))],
    'get_nodes': [_s('quadgl with raising integrand', lambda mp: mp.quadgl(_raiser(2), [0, 1]))],
    'PrecisionManager': [
        _s('with mp.workdps(20): pass', lambda mp: _with(mp.workdps(20), lambda: None)),
        _s('with mp.extradps(5): pass', lambda mp: _with(mp.extradps(5), lambda: None)),
        _s('with mp.workprec(200): raise', lambda mp: _with(mp.workprec(200), lambda: 1 / 0)),
        _s('with mp.extraprec(7): pass', lambda mp: _with(mp.extraprec(7), lambda: None)),
        _s('mp.workdps(20)(f)() decorator form', lambda mp: mp.workdps(20)(lambda: 1)()),
        _s('mp.extraprec(20)(f)() raising', lambda mp: mp.extraprec(20)(lambda: 1 / 0)())],
    'interpolant': [_s('odefun built at one precision and evaluated at another', lambda mp: _odefun_stale(mp))],
    'f_wrapped': [
        _s('iv.sinc("abc") (argument conversion fails)', lambda mp: __import__('mpmath').iv.sinc('abc')),
        _s('mp.sinc("abc")', lambda mp: mp.sinc('abc')),
        _s('iv.erf(1)', lambda mp: __import__('mpmath').iv.erf(1))],
}


def _with(cm, thunk):
    with cm:
        return thunk()


def _odefun_stale(mp):
    p = mp.prec
    mp.prec = 53
    f = mp.odefun(lambda x, y: y, 0, 1)
    mp.prec = p
    return f(1)



def _with_patch(mp, name, repl, thunk):
    cls = type(mp)
    had = name in mp.__dict__
    old = mp.__dict__.get(name)
    try:
        setattr(mp, name, repl)
        return thunk()
    finally:
        if had:
            setattr(mp, name, old)
        else:
            try:
                delattr(mp, name)
            except AttributeError:
                pass

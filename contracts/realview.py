"""Real-order view (C14, interval containment).

The mpf operations carry a second, *assumed* contract here: the order reading of their proved
integer-level contracts (contracts/libmpf.py, C02/C06): a floor-rounded result is below the exact
real value, a ceiling-rounded one above, an exact one equal; special values combine as IEEE-like
extended reals.  The bridge "CRound(x, sign, M, E, prec, 'f') implies rval(x) <= (-1)**sign*M*2**E"
is the definition of rounded_ok scaled by the positive number 2**E and is not machine-checked.

On top of these, the *real bodies* of the libmpi functions are verified: for universally
quantified real members x in s (and y in t) the exact result x op y lies in the returned interval."""
from pyvc.contract import contract
from pyvc.spec import *          # noqa: F401,F403
from pyvc.lemmalib import *      # noqa: F401,F403

F = 'mpmath.libmp.libmpf.'
I = 'mpmath.libmp.libmpi.'


def is_inf(x):
    return x == finf or x == fninf


def res_ok(result, exact, prec, rnd):
    """finite nonzero-or-zero result with linked value and the directed order relation"""
    return WFfin(result) and val_link(result) and dir_ok(rval(result), exact, prec, rnd)


# ------------------------------------------------------------------ assumed views of libmpf
@contract(F + 'mpf_add', view='real')
class _:
    search = 'rv2_inputs'
    assumed = True
    shapes = dict(s='mpf', t='mpf', prec='int')
    result = 'mpf'
    variants = []

    def requires(s, t, prec, rnd):
        return WF(s) and WF(t)

    def ensures_rv(s, t, prec, rnd, result):
        if s == fnan or t == fnan:
            return result == fnan
        if is_inf(s):
            if is_inf(t) and t != s:
                return result == fnan
            return result == s
        if is_inf(t):
            return result == t
        return res_ok(result, rval(s) + rval(t), prec, rnd)


@contract(F + 'mpf_sub', view='real')
class _:
    search = 'rv2_inputs'
    assumed = True
    shapes = dict(s='mpf', t='mpf', prec='int')
    result = 'mpf'

    def requires(s, t, prec, rnd):
        return WF(s) and WF(t)

    def ensures_rv(s, t, prec, rnd, result):
        if s == fnan or t == fnan:
            return result == fnan
        if is_inf(s):
            if t == s:
                return result == fnan
            return result == s
        if t == finf:
            return result == fninf
        if t == fninf:
            return result == finf
        return res_ok(result, rval(s) - rval(t), prec, rnd)


@contract(F + 'python_mpf_mul', view='real')
class _:
    search = 'rv2_inputs'
    assumed = True
    shapes = dict(s='mpf', t='mpf', prec='int')
    result = 'mpf'

    def requires(s, t, prec, rnd):
        return WF(s) and WF(t)

    def ensures_rv(s, t, prec, rnd, result):
        if s == fnan or t == fnan:
            return result == fnan
        if is_inf(s) or is_inf(t):
            if s == fzero or t == fzero:
                return result == fnan
            return result == (finf if s[0] == t[0] else fninf)
        if s == fzero or t == fzero:
            return result == fzero
        return finite_nz(result) and res_ok(result, rval(s) * rval(t), prec, rnd)


@contract(F + 'mpf_div', view='real')
class _:
    search = 'rv2_inputs'
    assumed = True
    shapes = dict(s='mpf', t='mpf', prec='int')
    result = 'mpf'
    raises = dict(ZeroDivisionError=lambda s, t: t == fzero)

    def requires(s, t, prec, rnd):
        return WF(s) and WF(t) and prec >= 1

    def ensures_rv(s, t, prec, rnd, result):
        if s == fnan or t == fnan:
            return result == fnan
        if s == fzero:
            return result == fzero
        if is_inf(s):
            if is_inf(t):
                return result == fnan
            return result == (finf if s[0] == t[0] else fninf)
        if is_inf(t):
            return result == fzero
        return finite_nz(result) and res_ok(result, rval(s) / rval(t), prec, rnd)


@contract(F + 'mpf_neg', view='real')
class _:
    search = 'rv1_inputs'
    assumed = True
    shapes = dict(s='mpf', prec='int')
    result = 'mpf'
    none_as = dict(prec=0)

    def requires(s, prec, rnd):
        return WF(s)

    def ensures_rv(s, prec, rnd, result):
        if s == fnan:
            return result == fnan
        if s == finf:
            return result == fninf
        if s == fninf:
            return result == finf
        if s == fzero:
            return result == fzero
        return finite_nz(result) and result[0] == 1 - s[0] and res_ok(result, -rval(s), 0 if prec is None else prec, rnd)


@contract(F + 'mpf_pos', view='real')
class _:
    search = 'rv1_inputs'
    assumed = True
    shapes = dict(s='mpf', prec='int')
    result = 'mpf'

    def requires(s, prec, rnd):
        return WF(s)

    def ensures_rv(s, prec, rnd, result):
        if is_nonfinite(s) or s == fzero:
            return result == s
        return finite_nz(result) and result[0] == s[0] and res_ok(result, rval(s), prec, rnd)


@contract(F + 'mpf_sign', view='real')
class _:
    search = 'rv1_inputs'
    assumed = True
    shapes = dict(s='mpf')
    result = 'int'

    def requires(s):
        return WF(s)

    def ensures_rv(s, result):
        if s == fzero or s == fnan:
            return result == 0
        if s == finf:
            return result == 1
        if s == fninf:
            return result == -1
        return result == 1 - 2 * s[0]


@contract(F + 'mpf_lt', view='real')
class _:
    search = 'rv2_inputs'
    assumed = True
    shapes = dict(s='mpf', t='mpf')
    result = 'bool'

    def requires(s, t):
        return WF(s) and WF(t)

    def ensures_rv(s, t, result):
        if s == fnan or t == fnan:
            return result == False      # noqa: E712
        return result == ext_lt(s, t)


@contract(F + 'mpf_le', view='real')
class _:
    search = 'rv2_inputs'
    assumed = True
    shapes = dict(s='mpf', t='mpf')
    result = 'bool'

    def requires(s, t):
        return WF(s) and WF(t)

    def ensures_rv(s, t, result):
        if s == fnan or t == fnan:
            return result == False      # noqa: E712
        return result == ext_le(s, t)


@contract(F + 'mpf_gt', view='real')
class _:
    search = 'rv2_inputs'
    assumed = True
    shapes = dict(s='mpf', t='mpf')
    result = 'bool'

    def requires(s, t):
        return WF(s) and WF(t)

    def ensures_rv(s, t, result):
        if s == fnan or t == fnan:
            return result == False      # noqa: E712
        return result == ext_lt(t, s)


@contract(F + 'mpf_ge', view='real')
class _:
    search = 'rv2_inputs'
    assumed = True
    shapes = dict(s='mpf', t='mpf')
    result = 'bool'

    def requires(s, t):
        return WF(s) and WF(t)

    def ensures_rv(s, t, result):
        if s == fnan or t == fnan:
            return result == False      # noqa: E712
        return result == ext_le(t, s)


# ------------------------------------------------------------------ libmpi under verification
@contract(I + 'mpi_add', view='real')
class _:
    search = 'mpi2_inputs'
    shapes = dict(s='mpi', t='mpi', prec='int')
    result = 'mpi'
    ghost_params = dict(x='real', y='real')
    default_props = ['C14']
    all_props = ['C14']
    no_replay = True

    def requires(s, t, prec):
        return IVr(s) and IVr(t) and prec >= 0

    def requires_g(s, t, x, y):
        return in_iv(x, s) and in_iv(y, t)

    def ensures_contain(s, t, prec, x, y, result):
        return in_iv(x + y, result)

    def ensures_valid(s, t, prec, result):
        return IVr(result)


@contract(I + 'mpi_sub', view='real')
class _:
    search = 'mpi2_inputs'
    shapes = dict(s='mpi', t='mpi', prec='int')
    result = 'mpi'
    ghost_params = dict(x='real', y='real')
    default_props = ['C14']
    all_props = ['C14']
    no_replay = True

    def requires(s, t, prec):
        return IVr(s) and IVr(t) and prec >= 0

    def requires_g(s, t, x, y):
        return in_iv(x, s) and in_iv(y, t)

    def ensures_contain(s, t, prec, x, y, result):
        return in_iv(x - y, result)

    def ensures_valid(s, t, prec, result):
        return IVr(result)


@contract(I + 'mpi_neg', view='real')
class _:
    search = 'mpi1_inputs'
    shapes = dict(s='mpi', prec='int')
    result = 'mpi'
    ghost_params = dict(x='real')
    default_props = ['C14']
    all_props = ['C14']
    no_replay = True

    def requires(s, prec):
        return IVr(s) and prec >= 0

    def requires_g(s, x):
        return in_iv(x, s)

    def ensures_valid(s, prec, result):
        return IVr(result)

    def ensures_contain(s, prec, x, result):
        return in_iv(-x, result)


@contract(I + 'mpi_pos', view='real')
class _:
    search = 'mpi1_inputs'
    shapes = dict(s='mpi', prec='int')
    result = 'mpi'
    ghost_params = dict(x='real')
    default_props = ['C14']
    all_props = ['C14']
    no_replay = True

    def requires(s, prec):
        return IVr(s) and prec >= 0

    def requires_g(s, x):
        return in_iv(x, s)

    def ensures_valid(s, prec, result):
        return IVr(result)

    def ensures_contain(s, prec, x, result):
        return in_iv(x, result)


@contract(I + 'mpi_abs', view='real')
class _:
    search = 'mpi1_inputs'
    shapes = dict(s='mpi', prec='int')
    result = 'mpi'
    ghost_params = dict(x='real')
    default_props = ['C14']
    all_props = ['C14']
    no_replay = True

    def requires(s, prec):
        return IVr(s) and prec >= 0

    def requires_g(s, x):
        return in_iv(x, s)

    def ensures_valid(s, prec, result):
        return IVr(result)

    def ensures_contain(s, prec, x, result):
        return in_iv(x if x >= 0 else -x, result)


@contract(I + 'mpi_mul', view='real')
class _:
    search = 'mpi2_inputs'
    shapes = dict(s='mpi', t='mpi', prec='int')
    result = 'mpi'
    ghost_params = dict(x='real', y='real')
    default_props = ['C14']
    all_props = ['C14']
    no_replay = True

    def requires(s, t, prec):
        return IVr(s) and IVr(t) and prec >= 0

    def requires_g(s, t, x, y):
        return in_iv(x, s) and in_iv(y, t)

    def ensures_valid(s, t, prec, result):
        return IVr(result)

    def ensures_contain(s, t, prec, x, y, result):
        return in_iv(x * y, result)


def all_le(a, seq):
    if len(seq) == 2:
        return ext_le(a, seq[0]) and ext_le(a, seq[1])
    return ext_le(a, seq[0]) and ext_le(a, seq[1]) and ext_le(a, seq[2]) and ext_le(a, seq[3])


def all_ge(a, seq):
    if len(seq) == 2:
        return ext_le(seq[0], a) and ext_le(seq[1], a)
    return ext_le(seq[0], a) and ext_le(seq[1], a) and ext_le(seq[2], a) and ext_le(seq[3], a)


def member(a, seq):
    if len(seq) == 2:
        return a == seq[0] or a == seq[1]
    return a == seq[0] or a == seq[1] or a == seq[2] or a == seq[3]


def none_nan(seq):
    if len(seq) == 2:
        return seq[0] != fnan and seq[1] != fnan
    return seq[0] != fnan and seq[1] != fnan and seq[2] != fnan and seq[3] != fnan


@contract(F + 'mpf_min_max', view='real')
class _:
    search = 'rvseq_inputs'
    """(min, max) of a list of 2 or 4 non-nan values: members of the list bounding all of it"""
    assumed = True
    shapes = dict(seq=('tuple', 'mpf', 'mpf', 'mpf', 'mpf'))
    result = ('tuple', 'mpf', 'mpf')

    def requires(seq):
        return (len(seq) == 2 or len(seq) == 4) and none_nan(seq)

    def ensures_rv(seq, result):
        return (member(result[0], seq) and member(result[1], seq)
                and all_le(result[0], seq) and all_ge(result[1], seq))


@contract(I + 'mpi_square', view='real')
class _:
    search = 'mpi1_inputs'
    shapes = dict(s='mpi', prec='int')
    result = 'mpi'
    ghost_params = dict(x='real')
    default_props = ['C14']
    all_props = ['C14']
    no_replay = True

    def requires(s, prec):
        return IVr(s) and prec >= 0

    def requires_g(s, x):
        return in_iv(x, s)

    def ensures_valid(s, prec, result):
        return IVr(result)

    def ensures_contain(s, prec, x, result):
        return in_iv(x * x, result)


@contract(I + 'mpi_div', view='real')
class _:
    search = 'mpi2_inputs'
    shapes = dict(s='mpi', t='mpi', prec='int')
    result = 'mpi'
    ghost_params = dict(x='real', y='real')
    default_props = ['C14']
    all_props = ['C14']
    no_replay = True
    # the recursive call on the negated operands and the two negations, instantiated at the negated members
    call_insts = {('mpi_neg', 0): [dict(x='x')], ('mpi_neg', 1): [dict(x='y')], 'mpi_div': [dict(x='-x', y='-y')]}

    def requires(s, t, prec):
        return IVr(s) and IVr(t) and prec >= 1

    def requires_g(s, t, x, y):
        return in_iv(x, s) and in_iv(y, t) and y != 0

    def ensures_valid(s, t, prec, result):
        return IVr(result)

    def ensures_contain(s, t, prec, x, y, result):
        return in_iv(x / y, result)


@contract(I + 'mpi_mul_mpf', view='real')
class _:
    shapes = dict(s='mpi', t='mpf', prec='int')
    result = 'mpi'
    ghost_params = dict(x='real')
    default_props = ['C14']
    all_props = ['C14']
    no_replay = True
    call_insts = {'mpi_mul': [dict(x='x', y='rval(t)')]}

    def requires(s, t, prec):
        return IVr(s) and WFfin(t) and prec >= 0

    def requires_g(s, x):
        return in_iv(x, s)

    def ensures_contain(s, t, prec, x, result):
        return in_iv(x * rval(t), result)


@contract(I + 'mpi_div_mpf', view='real')
class _:
    shapes = dict(s='mpi', t='mpf', prec='int')
    result = 'mpi'
    ghost_params = dict(x='real')
    default_props = ['C14']
    all_props = ['C14']
    no_replay = True
    call_insts = {'mpi_div': [dict(x='x', y='rval(t)')]}

    def requires(s, t, prec):
        return IVr(s) and finite_nz(t) and prec >= 1

    def requires_g(s, x):
        return in_iv(x, s)

    def ensures_contain(s, t, prec, x, result):
        return in_iv(x / rval(t), result)


# ------------------------------------------------------------------ monotone elementary functions
# assumed: directed rounding of mpf_exp / mpf_log / mpf_sqrt / mpf_atan is on the correct side (C12 decides
# accuracy only on a bounded domain); proved: the interval wrappers use the right endpoints and modes.
E = 'mpmath.libmp.libelefun.'


@contract(E + 'mpf_exp', view='real')
class _:
    assumed = True
    shapes = dict(x='mpf', prec='int')
    result = 'mpf'

    def requires(x, prec, rnd):
        return WF(x)

    def ensures_rv(x, prec, rnd, result):
        return not WFfin(x) or (finite_nz(result) and res_ok(result, r_fun(0, rval(x)), prec if prec >= 1 else 1, rnd))


@contract(E + 'mpf_log', view='real')
class _:
    assumed = True
    shapes = dict(x='mpf', prec='int')
    result = 'mpf'

    def requires(x, prec, rnd):
        return WF(x)

    def ensures_rv(x, prec, rnd, result):
        return not (finite_nz(x) and x[0] == 0) or res_ok(result, r_fun(1, rval(x)), prec if prec >= 1 else 1, rnd)


@contract('mpmath.libmp.libmpf.mpf_sqrt', view='real')
class _:
    assumed = True
    shapes = dict(s='mpf', prec='int')
    result = 'mpf'

    def requires(s, prec, rnd):
        return WF(s)

    def ensures_rv(s, prec, rnd, result):
        return not (WFfin(s) and (s == fzero or s[0] == 0)) or res_ok(result, r_fun(2, rval(s)), prec if prec >= 1 else 1, rnd)


@contract(E + 'mpf_atan', view='real')
class _:
    assumed = True
    shapes = dict(x='mpf', prec='int')
    result = 'mpf'

    def requires(x, prec, rnd):
        return WF(x)

    def ensures_rv(x, prec, rnd, result):
        return not WFfin(x) or res_ok(result, r_fun(3, rval(x)), prec if prec >= 1 else 1, rnd)


@contract(I + 'mpi_exp', view='real')
class _:
    shapes = dict(s='mpi', prec='int')
    result = 'mpi'
    ghost_params = dict(x='real')
    default_props = ['C14']
    all_props = ['C14']
    no_replay = True

    def requires(s, prec):
        return IVr(s) and WFfin(s[0]) and WFfin(s[1]) and prec >= 1

    def requires_g(s, x):
        return in_iv(x, s)

    def ensures_contain(s, prec, x, result):
        return in_iv(r_fun(0, x), result)

    post_hints = ['lemma_r_fun_mono(0, rval(s[0]), x)', 'lemma_r_fun_mono(0, x, rval(s[1]))']


@contract(I + 'mpi_log', view='real')
class _:
    shapes = dict(s='mpi', prec='int')
    result = 'mpi'
    ghost_params = dict(x='real')
    default_props = ['C14']
    all_props = ['C14']
    no_replay = True

    def requires(s, prec):
        return IVr(s) and finite_nz(s[0]) and s[0][0] == 0 and WFfin(s[1]) and prec >= 1

    def requires_g(s, x):
        return in_iv(x, s)

    def ensures_contain(s, prec, x, result):
        return in_iv(r_fun(1, x), result)

    post_hints = ['lemma_r_fun_mono(1, rval(s[0]), x)', 'lemma_r_fun_mono(1, x, rval(s[1]))']


@contract(I + 'mpi_sqrt', view='real')
class _:
    shapes = dict(s='mpi', prec='int')
    result = 'mpi'
    ghost_params = dict(x='real')
    default_props = ['C14']
    all_props = ['C14']
    no_replay = True

    def requires(s, prec):
        return IVr(s) and WFfin(s[0]) and (s[0] == fzero or s[0][0] == 0) and WFfin(s[1]) and prec >= 1

    def requires_g(s, x):
        return in_iv(x, s)

    def ensures_contain(s, prec, x, result):
        return in_iv(r_fun(2, x), result)

    post_hints = ['lemma_r_fun_mono(2, rval(s[0]), x)', 'lemma_r_fun_mono(2, x, rval(s[1]))']


@contract(I + 'mpi_atan', view='real')
class _:
    shapes = dict(s='mpi', prec='int')
    result = 'mpi'
    ghost_params = dict(x='real')
    default_props = ['C14']
    all_props = ['C14']
    no_replay = True

    def requires(s, prec):
        return IVr(s) and WFfin(s[0]) and WFfin(s[1]) and prec >= 1

    def requires_g(s, x):
        return in_iv(x, s)

    def ensures_contain(s, prec, x, result):
        return in_iv(r_fun(3, x), result)

    post_hints = ['lemma_r_fun_mono(3, rval(s[0]), x)', 'lemma_r_fun_mono(3, x, rval(s[1]))']


# ------------------------------------------------------------------ complex intervals (C15): rectangles a + b*i
def in_rect(xr, xi, z):
    return in_iv(xr, z[0]) and in_iv(xi, z[1])


def RECT(z):
    return IVr(z[0]) and IVr(z[1])


@contract(I + 'mpci_add', view='real')
class _:
    search = 'mpci2_inputs'
    shapes = dict(x=('tuple', 'mpi', 'mpi'), y=('tuple', 'mpi', 'mpi'), prec='int')
    result = ('tuple', 'mpi', 'mpi')
    ghost_params = dict(xr='real', xi='real', yr='real', yi='real')
    default_props = ['C15']
    all_props = ['C15']
    no_replay = True
    call_insts = {('mpi_add', 0): [dict(x='xr', y='yr')], ('mpi_add', 1): [dict(x='xi', y='yi')]}

    def requires(x, y, prec):
        return RECT(x) and RECT(y) and prec >= 0

    def requires_g(x, y, xr, xi, yr, yi):
        return in_rect(xr, xi, x) and in_rect(yr, yi, y)

    def ensures_valid(x, y, prec, result):
        return RECT(result)

    def ensures_contain(x, y, prec, xr, xi, yr, yi, result):
        return in_rect(xr + yr, xi + yi, result)


@contract(I + 'mpci_sub', view='real')
class _:
    search = 'mpci2_inputs'
    shapes = dict(x=('tuple', 'mpi', 'mpi'), y=('tuple', 'mpi', 'mpi'), prec='int')
    result = ('tuple', 'mpi', 'mpi')
    ghost_params = dict(xr='real', xi='real', yr='real', yi='real')
    default_props = ['C15']
    all_props = ['C15']
    no_replay = True
    call_insts = {('mpi_sub', 0): [dict(x='xr', y='yr')], ('mpi_sub', 1): [dict(x='xi', y='yi')]}

    def requires(x, y, prec):
        return RECT(x) and RECT(y) and prec >= 0

    def requires_g(x, y, xr, xi, yr, yi):
        return in_rect(xr, xi, x) and in_rect(yr, yi, y)

    def ensures_valid(x, y, prec, result):
        return RECT(result)

    def ensures_contain(x, y, prec, xr, xi, yr, yi, result):
        return in_rect(xr - yr, xi - yi, result)


@contract(I + 'mpci_neg', view='real')
class _:
    search = 'mpci1_inputs'
    shapes = dict(x=('tuple', 'mpi', 'mpi'), prec='int')
    result = ('tuple', 'mpi', 'mpi')
    ghost_params = dict(xr='real', xi='real')
    default_props = ['C15']
    all_props = ['C15']
    no_replay = True
    call_insts = {('mpi_neg', 0): [dict(x='xr')], ('mpi_neg', 1): [dict(x='xi')]}

    def requires(x, prec):
        return RECT(x) and prec >= 0

    def requires_g(x, xr, xi):
        return in_rect(xr, xi, x)

    def ensures_valid(x, prec, result):
        return RECT(result)

    def ensures_contain(x, prec, xr, xi, result):
        return in_rect(-xr, -xi, result)


@contract(I + 'mpci_pos', view='real')
class _:
    search = 'mpci1_inputs'
    shapes = dict(x=('tuple', 'mpi', 'mpi'), prec='int')
    result = ('tuple', 'mpi', 'mpi')
    ghost_params = dict(xr='real', xi='real')
    default_props = ['C15']
    all_props = ['C15']
    no_replay = True
    call_insts = {('mpi_pos', 0): [dict(x='xr')], ('mpi_pos', 1): [dict(x='xi')]}

    def requires(x, prec):
        return RECT(x) and prec >= 0

    def requires_g(x, xr, xi):
        return in_rect(xr, xi, x)

    def ensures_valid(x, prec, result):
        return RECT(result)

    def ensures_contain(x, prec, xr, xi, result):
        return in_rect(xr, xi, result)


@contract(I + 'mpci_mul', view='real')
class _:
    search = 'mpci2_inputs'
    shapes = dict(x=('tuple', 'mpi', 'mpi'), y=('tuple', 'mpi', 'mpi'), prec='int')
    result = ('tuple', 'mpi', 'mpi')
    ghost_params = dict(xr='real', xi='real', yr='real', yi='real')
    default_props = ['C15']
    all_props = ['C15']
    no_replay = True
    call_insts = {('mpi_mul', 0): [dict(x='xr', y='yr')], ('mpi_mul', 1): [dict(x='xi', y='yi')],
                  ('mpi_mul', 2): [dict(x='xr', y='yi')], ('mpi_mul', 3): [dict(x='xi', y='yr')],
                  ('mpi_sub', 0): [dict(x='xr * yr', y='xi * yi')], ('mpi_add', 0): [dict(x='xr * yi', y='xi * yr')]}

    def requires(x, y, prec):
        return RECT(x) and RECT(y) and prec >= 0

    def requires_g(x, y, xr, xi, yr, yi):
        return in_rect(xr, xi, x) and in_rect(yr, yi, y)

    def ensures_valid(x, y, prec, result):
        return RECT(result)

    def ensures_contain(x, y, prec, xr, xi, yr, yi, result):
        return in_rect(xr * yr - xi * yi, xr * yi + xi * yr, result)


@contract(I + 'mpci_div', view='real')
class _:
    search = 'mpci2_inputs'
    shapes = dict(x=('tuple', 'mpi', 'mpi'), y=('tuple', 'mpi', 'mpi'), prec='int')
    result = ('tuple', 'mpi', 'mpi')
    ghost_params = dict(xr='real', xi='real', yr='real', yi='real')
    default_props = ['C15']
    all_props = ['C15']
    no_replay = True
    call_insts = {('mpi_square', 0): [dict(x='yr')], ('mpi_square', 1): [dict(x='yi')],
                  ('mpi_add', 0): [dict(x='yr * yr', y='yi * yi')],
                  ('mpi_mul', 0): [dict(x='xr', y='yr')], ('mpi_mul', 1): [dict(x='xi', y='yi')],
                  ('mpi_add', 1): [dict(x='xr * yr', y='xi * yi')],
                  ('mpi_mul', 2): [dict(x='xi', y='yr')], ('mpi_mul', 3): [dict(x='xr', y='yi')],
                  ('mpi_sub', 0): [dict(x='xi * yr', y='xr * yi')],
                  ('mpi_div', 0): [dict(x='xr * yr + xi * yi', y='yr * yr + yi * yi')],
                  ('mpi_div', 1): [dict(x='xi * yr - xr * yi', y='yr * yr + yi * yi')]}

    def requires(x, y, prec):
        return RECT(x) and RECT(y) and prec >= 1

    def requires_g(x, y, xr, xi, yr, yi):
        return in_rect(xr, xi, x) and in_rect(yr, yi, y) and (yr != 0 or yi != 0)

    def ensures_valid(x, y, prec, result):
        return RECT(result)

    def ensures_contain(x, y, prec, xr, xi, yr, yi, result):
        return in_rect((xr * yr + xi * yi) / (yr * yr + yi * yi), (xi * yr - xr * yi) / (yr * yr + yi * yi), result)

    # the denominator is a member of m and is not zero
    post_hints = ['assert yr * yr + yi * yi > 0']

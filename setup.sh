#!/bin/sh
# offline setup: nothing is fetched or built; verify that the tools the checks need are present
set -e
cd "$(dirname "$0")"
python3-vt - <<'PY'
import sys, os
os.environ['MPMATH_NOGMPY'] = '1'
sys.path.insert(0, '/repo')
import z3, ast
import mpmath
print('z3', z3.get_version_string(), 'python', sys.version.split()[0], 'mpmath backend', mpmath.libmp.BACKEND)
assert mpmath.libmp.BACKEND == 'python'
PY
mkdir -p .scratch evidence
echo setup ok

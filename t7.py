# dev: show unknown obligations of one unit with traces / failed conjunct
import os, sys
os.environ['MPMATH_NOGMPY']='1'
sys.path.insert(0,os.environ.get('PYVC_REPO','/repo')); sys.path.insert(0,'/verif')
import contracts; contracts.load_all()
from pyvc import contract as C
from pyvc.verify import verify_unit, enum_space
import z3
tgt = sys.argv[1]
ct = C.BY_NAME[tgt]
for ea in enum_space(ct):
    if len(sys.argv)>2 and ea.get('rnd') not in sys.argv[2]: continue
    r = verify_unit(tgt, ea, {'cvc5': False, 'verbose': False, 'keep': True, 'rlimit': int(os.environ.get('RL','3000000'))})
    for rec, ob in zip(r['obligations'], r['_obs']):
        if rec['status'] != 'proved':
            print(rec['status'], rec['name'], rec.get('reason'))
            print('  trace', ob.trace)
            print('  failed conjunct:', rec.get('failed_conjunct'))
            if os.environ.get('DUMP'):
                for f in ob.pc: print('   PC', z3.simplify(f))
                print('   GOAL', z3.simplify(ob.goal))
            break
    break

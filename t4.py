import os, sys, json, time
os.environ['MPMATH_NOGMPY']='1'
sys.path.insert(0,os.environ.get('PYVC_REPO','/repo')); sys.path.insert(0,'/verif')
import z3
import contracts; contracts.load_all()
from pyvc import contract as C
import pyvc.verify as vv
tgt = sys.argv[1]; ea = json.loads(sys.argv[2]); idx = int(sys.argv[3])
orig = vv.solve
cnt = [0]
def fake(pc, goal, **kw):
    i = cnt[0]; cnt[0] += 1
    if i == idx:
        st, info = orig(pc, goal, **kw)
        print('IDX', i, st, {k:v for k,v in info.items() if k!='model'})
        return st, info
    return 'proved', {'solver':'skip'}
vv.solve = fake
r = vv.verify_unit(tgt, ea, {'cvc5': False, 'rlimit': 30000000})

import os, sys, time, threading
os.environ['MPMATH_NOGMPY']='1'
sys.path.insert(0,os.environ.get('PYVC_REPO','/repo')); sys.path.insert(0,'/verif')
from pyvc import refine
threading.stack_size(512*1024*1024)
def main():
    t0=time.time()
    r = refine.run(os.environ.get('PYVC_REPO','/repo'), True, only=set(sys.argv[1:]) or None)
    print('verified', len(r['verified']), 'unverified', len(r['unverified']), 'rounds', r['rounds'], 'wall', round(time.time()-t0,1))
    print(r['verified'])
    for n, why in r['unverified'].items(): print('  ', n, r['paths'].get(n), why[:2])
t=threading.Thread(target=main); t.start(); t.join()

#!/bin/sh
# tools_seed_confirm.sh <seed-id> <property> <patch.diff> <demo.py> <notes.md>
# Confirms in a scratch worktree (outside /repo and /verif): demo passes on the clean tree, patch applies,
# demo fails with the patch, the full test suite still passes with the patch.  Then stores the seed under
# /verif/seeded/<seed-id>/ with meta.json.  The worktree is removed afterwards.
id="$1"; prop="$2"; patch="$3"; demo="$4"; notes="$5"
wt=/tmp/seedconfirm/$id
rm -rf "$wt"; mkdir -p /tmp/seedconfirm
git -C /repo worktree add -q --detach "$wt" HEAD || exit 3
mkdir -p "$wt/_seed"; cp "$demo" "$wt/_seed/_demo.py"   # demos locate the tree as dirname(dirname(__file__))
( cd "$wt" && PYTHONPATH="$wt" /venv/bin/python _seed/_demo.py > /tmp/seedconfirm/$id.clean.log 2>&1 ); clean=$?
git -C "$wt" apply "$patch" || { echo "$id: patch does not apply"; git -C /repo worktree remove --force "$wt"; exit 3; }
( cd "$wt" && PYTHONPATH="$wt" /venv/bin/python _seed/_demo.py > /tmp/seedconfirm/$id.mut.log 2>&1 ); mut=$?
( cd "$wt" && /venv/bin/python -m pytest -q -p no:cacheprovider --timeout=900 -q mpmath/tests > /tmp/seedconfirm/$id.suite.log 2>&1 ); suite=$?
tail -1 /tmp/seedconfirm/$id.suite.log > /tmp/seedconfirm/$id.suite.tail
git -C /repo worktree remove --force "$wt"
echo "$id: demo clean exit=$clean, demo with change exit=$mut, suite with change exit=$suite ($(cat /tmp/seedconfirm/$id.suite.tail))"
if [ "$clean" = 0 ] && [ "$mut" != 0 ] && [ "$suite" = 0 ]; then
  d=/verif/seeded/$id; mkdir -p "$d"
  cp "$patch" "$d/patch.diff"; cp "$demo" "$d/demo.py"; [ -f "$notes" ] && cp "$notes" "$d/notes.md"
  python3 - "$id" "$prop" "$clean" "$mut" "$suite" <<'PY'
import json, sys, os
id, prop, clean, mut, suite = sys.argv[1:6]
d = '/verif/seeded/%s' % id
notes = open(os.path.join(d, 'notes.md')).read() if os.path.exists(os.path.join(d, 'notes.md')) else ''
meta = {'seed': id, 'breaks_property': prop,
        'needs_to_manifest': notes.strip().split('\n')[0:12],
        'confirmed': {'demo_on_clean_tree_exit': int(clean), 'demo_with_change_exit': int(mut),
                      'test_suite_with_change_exit': int(suite),
                      'commands': ['git worktree add <scratch> HEAD', 'python _demo.py   (clean)', 'git apply patch.diff',
                                   'python _demo.py   (changed)', 'python -m pytest -q mpmath/tests   (changed)']},
        'source': 'independent sub-agent given only the property text and a scratch worktree'}
json.dump(meta, open(os.path.join(d, 'meta.json'), 'w'), indent=1)
PY
  echo "$id: stored"
else
  echo "$id: NOT confirmed"
fi

import Mathlib.Tactic
import Mathlib.Data.Nat.Size
import Mathlib.Algebra.Order.Floor.Ring
import Mathlib.Analysis.SpecialFunctions.Log.Basic
import Mathlib.Analysis.SpecialFunctions.Trigonometric.Arctan
import Mathlib.Analysis.SpecialFunctions.Sqrt

/-! The pow2 / bitlen lemma library of /verif/pyvc (lemmas.py ground lemmas and lemmalib.py hint lemmas),
stated over the naturals: `pow2 k = 2 ^ k`, `bitlen x = Nat.size x` (number of binary digits),
`shr x n = x / 2 ^ n`.  In the verifier the same statements are used over the integers, guarded by
`k >= 0` / `x >= 0`. -/
namespace Pyvc

open Nat

theorem pow2_pos (k : ℕ) : 1 ≤ 2 ^ k := Nat.one_le_two_pow

theorem pow2_gt (k : ℕ) : k < 2 ^ k := Nat.lt_two_pow_self

theorem pow2_even (k : ℕ) (h : 1 ≤ k) : 2 ^ k % 2 = 0 := by
  obtain ⟨j, rfl⟩ : ∃ j, k = j + 1 := ⟨k - 1, by omega⟩
  rw [pow_succ]; simp

theorem pow2_mono (a b : ℕ) (h : a < b) : 2 * 2 ^ a ≤ 2 ^ b := by
  have : 2 ^ (a + 1) ≤ 2 ^ b := Nat.pow_le_pow_right (by norm_num) h
  rw [pow_succ] at this; linarith

theorem pow2_le (a b : ℕ) (h : a ≤ b) : 2 ^ a ≤ 2 ^ b := Nat.pow_le_pow_right (by norm_num) h

theorem pow2_succ (a : ℕ) : 2 ^ (a + 1) = 2 * 2 ^ a := by rw [pow_succ]; ring

theorem pow2_add (a b : ℕ) : 2 ^ (a + b) = 2 ^ a * 2 ^ b := pow_add 2 a b

theorem pow2_sub (a b : ℕ) (h : b ≤ a) : 2 ^ a = 2 ^ (a - b) * 2 ^ b := by
  rw [← pow_add]; congr 1; omega

theorem bitlen_zero : Nat.size 0 = 0 := Nat.size_zero

theorem bitlen_spec (x : ℕ) (h : 0 < x) :
    1 ≤ Nat.size x ∧ 2 ^ (Nat.size x - 1) ≤ x ∧ x < 2 ^ Nat.size x := by
  have hs : 0 < Nat.size x := Nat.size_pos.mpr h
  refine ⟨hs, ?_, Nat.lt_size_self x⟩
  exact Nat.lt_size.mp (by omega)

theorem bitlen_bounds (x k : ℕ) (h : 1 ≤ k ∧ 2 ^ (k - 1) ≤ x ∧ x < 2 ^ k) : Nat.size x = k := by
  obtain ⟨hk, hlo, hhi⟩ := h
  have h1 : Nat.size x ≤ k := Nat.size_le.mpr hhi
  have h2 : k - 1 < Nat.size x := Nat.lt_size.mpr hlo
  omega

theorem bitlen_mul_pow2 (x k : ℕ) (h : 0 < x) : Nat.size (x * 2 ^ k) = Nat.size x + k := by
  rw [← Nat.shiftLeft_eq]; exact Nat.size_shiftLeft (by omega) k

theorem bitlen_mono (x y : ℕ) (h : x ≤ y) : Nat.size x ≤ Nat.size y := Nat.size_le_size h

theorem bitlen_ge (x k : ℕ) (h : 2 ^ k ≤ x) : k + 1 ≤ Nat.size x := Nat.lt_size.mpr h

theorem shr_shr (x : ℤ) (a b : ℕ) : x / 2 ^ a / 2 ^ b = x / 2 ^ (a + b) := by
  rw [Int.ediv_ediv_of_nonneg (by positivity), pow_add]

theorem shr_bitlen (x : ℕ) (h : 0 < x) :
    x / 2 ^ (Nat.size x - 1) = 1 ∧ x / 2 ^ Nat.size x = 0 := by
  obtain ⟨hs, hlo, hhi⟩ := bitlen_spec x h
  constructor
  · apply Nat.div_eq_of_lt_le
    · rw [one_mul]; exact hlo
    · have : 2 ^ Nat.size x = 2 * 2 ^ (Nat.size x - 1) := by
        rw [← pow_succ']; congr 1; omega
      omega
  · exact Nat.div_eq_of_lt hhi

theorem bitlen_2x1 (q : ℕ) (h : 1 ≤ q) :
    Nat.size (2 * q + 1) = Nat.size q + 1 ∧ Nat.size (2 * q) = Nat.size q + 1 := by
  obtain ⟨hs, hlo, hhi⟩ := bitlen_spec q h
  have e : 2 ^ (Nat.size q + 1 - 1) = 2 ^ (Nat.size q - 1) * 2 := by
    rw [← pow_succ]; congr 1; omega
  have e2 : 2 ^ (Nat.size q + 1) = 2 ^ Nat.size q * 2 := pow_succ 2 _
  constructor
  · apply bitlen_bounds; refine ⟨by omega, ?_, ?_⟩
    · rw [e]; linarith
    · rw [e2]; omega
  · apply bitlen_bounds; refine ⟨by omega, ?_, ?_⟩
    · rw [e]; linarith
    · rw [e2]; omega

theorem bitlen_mul (x y : ℕ) (h : 0 < x ∧ 0 < y) :
    Nat.size (x * y) = Nat.size x + Nat.size y ∨ Nat.size (x * y) = Nat.size x + Nat.size y - 1 := by
  obtain ⟨hx, hy⟩ := h
  obtain ⟨hsx, hlx, hhx⟩ := bitlen_spec x hx
  obtain ⟨hsy, hly, hhy⟩ := bitlen_spec y hy
  have hup : Nat.size (x * y) ≤ Nat.size x + Nat.size y := by
    apply Nat.size_le.mpr
    rw [pow_add]; exact Nat.mul_lt_mul'' hhx hhy
  have hlo : Nat.size x + Nat.size y - 2 < Nat.size (x * y) := by
    apply Nat.lt_size.mpr
    have : 2 ^ (Nat.size x + Nat.size y - 2) = 2 ^ (Nat.size x - 1) * 2 ^ (Nat.size y - 1) := by
      rw [← pow_add]; congr 1; omega
    rw [this]; exact Nat.mul_le_mul hlx hly
  omega

theorem odd_pow2_unique (a i b j : ℕ) (h : a % 2 = 1 ∧ b % 2 = 1 ∧ a * 2 ^ i = b * 2 ^ j) :
    a = b ∧ i = j := by
  obtain ⟨ha, hb, he⟩ := h
  -- compare the 2-adic parts
  rcases Nat.lt_trichotomy i j with hij | hij | hij
  · exfalso
    obtain ⟨d, rfl⟩ : ∃ d, j = i + (d + 1) := ⟨j - i - 1, by omega⟩
    rw [pow_add, ← mul_assoc, mul_comm b, mul_assoc] at he
    have h2 : a = 2 ^ (d + 1) * b := by
      have hp : 0 < 2 ^ i := by positivity
      have : a * 2 ^ i = (2 ^ (d + 1) * b) * 2 ^ i := by rw [he]; ring
      exact Nat.eq_of_mul_eq_mul_right hp this
    have h3 : 2 ^ (d + 1) * b = 2 * (2 ^ d * b) := by ring
    rw [h2, h3] at ha
    omega
  · subst hij
    have hp : 0 < 2 ^ i := by positivity
    exact ⟨Nat.eq_of_mul_eq_mul_right hp he, rfl⟩
  · exfalso
    obtain ⟨d, rfl⟩ : ∃ d, i = j + (d + 1) := ⟨i - j - 1, by omega⟩
    rw [pow_add, ← mul_assoc, mul_comm a, mul_assoc] at he
    have h2 : b = 2 ^ (d + 1) * a := by
      have hp : 0 < 2 ^ j := by positivity
      have : b * 2 ^ j = (2 ^ (d + 1) * a) * 2 ^ j := by rw [← he]; ring
      exact Nat.eq_of_mul_eq_mul_right hp this
    have h3 : 2 ^ (d + 1) * a = 2 * (2 ^ d * a) := by ring
    rw [h2, h3] at hb
    omega

theorem pow2_mod61 (k : ℕ) : 2 ^ k % 2305843009213693951 = 2 ^ (k % 61) % 2305843009213693951 := by
  have h61 : (2 : ℕ) ^ 61 % 2305843009213693951 = 1 := by norm_num
  conv_lhs => rw [← Nat.div_add_mod k 61, pow_add, pow_mul]
  rw [Nat.mul_mod, Nat.pow_mod, h61]
  simp

/-- nested floors (lemma_cfix_shift): floor(floor(c * 2^a) / 2^(a-b)) = floor(c * 2^b) for b ≤ a -/
theorem cfix_shift (c : ℝ) (a b : ℕ) (h : b ≤ a) :
    ⌊c * 2 ^ a⌋ / (2 : ℤ) ^ (a - b) = ⌊c * 2 ^ b⌋ := by
  have hpow : (2 : ℝ) ^ a = 2 ^ b * 2 ^ (a - b) := by
    rw [← pow_add]; congr 1; omega
  have key := Int.floor_div_natCast (c * 2 ^ a) (2 ^ (a - b))
  have hne : ((2 ^ (a - b) : ℕ) : ℝ) ≠ 0 := by positivity
  rw [show (c * 2 ^ a) / ((2 ^ (a - b) : ℕ) : ℝ) = c * 2 ^ b by
        rw [hpow]; push_cast; field_simp] at key
  rw [key]; push_cast; rfl

theorem cfix_nonneg (c : ℝ) (hc : 0 < c) (a : ℕ) : 0 ≤ ⌊c * 2 ^ a⌋ := by
  apply Int.floor_nonneg.mpr; positivity

/-- lemma_r_fun_mono: exp, log (on positive reals), sqrt and arctan are non-decreasing -/
theorem exp_mono (a b : ℝ) (h : a ≤ b) : Real.exp a ≤ Real.exp b := Real.exp_le_exp.mpr h
theorem log_mono (a b : ℝ) (ha : 0 < a) (h : a ≤ b) : Real.log a ≤ Real.log b := Real.log_le_log ha h
theorem sqrt_mono (a b : ℝ) (h : a ≤ b) : Real.sqrt a ≤ Real.sqrt b := Real.sqrt_le_sqrt h
theorem arctan_mono (a b : ℝ) (h : a ≤ b) : Real.arctan a ≤ Real.arctan b :=
  Real.arctan_strictMono.monotone h

end Pyvc

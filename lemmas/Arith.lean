import Mathlib.Tactic

/-! Hint lemmas of /verif/pyvc/lemmalib.py that are pure ordered-ring facts over the integers. -/
namespace Pyvc

theorem lemma_mul_mono (a b c d : ℤ) (h : 0 ≤ a ∧ a ≤ b ∧ 0 ≤ c ∧ c ≤ d) : a * c ≤ b * d := by
  obtain ⟨h1, h2, h3, h4⟩ := h
  exact mul_le_mul h2 h4 h3 (le_trans h1 h2)

theorem lemma_mul_lt (a b c d : ℤ) (h : 0 ≤ a ∧ a < b ∧ 0 ≤ c ∧ c < d) : a * c < b * d := by
  obtain ⟨h1, h2, h3, h4⟩ := h
  nlinarith

theorem lemma_mul_cancel_lt (a b p : ℤ) (h : 0 < p ∧ a * p < b * p) : a < b := by
  obtain ⟨hp, h⟩ := h
  exact lt_of_mul_lt_mul_right h (le_of_lt hp)

theorem lemma_mul_cancel_le (a b p : ℤ) (h : 0 < p ∧ a * p ≤ b * p) : a ≤ b := by
  obtain ⟨hp, h⟩ := h
  exact le_of_mul_le_mul_right h hp

theorem lemma_div_bounds (x q r p lo hi : ℤ)
    (h : x = q * p + r ∧ 0 ≤ r ∧ r < p ∧ lo * p ≤ x ∧ x < hi * p) : lo ≤ q ∧ q < hi := by
  obtain ⟨hx, hr0, hrp, hlo, hhi⟩ := h
  have hp : 0 < p := lt_of_le_of_lt hr0 hrp
  constructor
  · by_contra hc
    push_neg at hc
    have : q + 1 ≤ lo := hc
    nlinarith
  · by_contra hc
    push_neg at hc
    nlinarith

theorem lemma_mul_eq (a b p : ℤ) (h : a = b) : a * p = b * p := by rw [h]

theorem lemma_mul_eq2 (a b c d : ℤ) (h : a = b ∧ c = d) : a * c = b * d := by rw [h.1, h.2]

theorem lemma_odd_mul (a b : ℤ) (h : a % 2 = 1 ∧ b % 2 = 1) : (a * b) % 2 = 1 := by
  obtain ⟨ha, hb⟩ := h
  rw [Int.mul_emod, ha, hb]; norm_num

theorem lemma_mul_pos (a b : ℤ) (h : 0 < a ∧ 0 < b) : 0 < a * b := mul_pos h.1 h.2

theorem lemma_even_mul (a p : ℤ) (h : p % 2 = 0) : (a * p) % 2 = 0 := by
  rw [Int.mul_emod, h]; simp

theorem lemma_mul_lt_r (a b p : ℤ) (h : 0 < p ∧ a < b) : a * p < b * p :=
  mul_lt_mul_of_pos_right h.2 h.1

theorem lemma_mul_le_r (a b p : ℤ) (h : 0 ≤ p ∧ a ≤ b) : a * p ≤ b * p :=
  mul_le_mul_of_nonneg_right h.2 h.1

theorem lemma_mul_assoc3 (a b c : ℤ) : (a * b) * c = a * (b * c) := mul_assoc a b c

theorem lemma_mul_cancel_eq (a b p : ℤ) (h : 0 < p ∧ a * p = b * p) : a = b := by
  obtain ⟨hp, h⟩ := h
  exact mul_right_cancel₀ (ne_of_gt hp) h

theorem lemma_mul_distrib (a b p : ℤ) : (a + b) * p = a * p + b * p := add_mul a b p

theorem lemma_sq_expand (y : ℤ) :
    (y + 1) * (y + 1) = y * y + 2 * y + 1 ∧ (y - 1) * (y - 1) = y * y - 2 * y + 1 := by
  constructor <;> ring

theorem lemma_sq_mono (a b : ℤ) (h : 0 ≤ a ∧ a ≤ b) : a * a ≤ b * b := by
  obtain ⟨h1, h2⟩ := h
  exact mul_le_mul h2 h2 h1 (le_trans h1 h2)

theorem lemma_sq_mono_lt (a b : ℤ) (h : 0 ≤ a ∧ a < b) : a * a < b * b := by
  obtain ⟨h1, h2⟩ := h
  nlinarith

theorem lemma_sq_cancel (a b : ℤ) (h : 0 ≤ a ∧ 0 ≤ b ∧ a * a = b * b) : a = b := by
  obtain ⟨ha, hb, h⟩ := h
  nlinarith [sq_nonneg (a - b), sq_nonneg (a + b)]

/-- uniqueness of the floor square root (lemma_isqrt_unique), over the naturals -/
theorem lemma_isqrt_unique (x y : ℕ) (h : y * y ≤ x ∧ x < (y + 1) * (y + 1)) : y = Nat.sqrt x := by
  obtain ⟨h1, h2⟩ := h
  exact (Nat.eq_sqrt.mpr ⟨h1, h2⟩)

end Pyvc

#!/bin/sh
# tools_seeds_all.sh [seed-id ...]: re-evaluate stored seeds (/verif/seeded/<id>/patch.diff) against the check of the
# property they break, each in a scratch worktree outside /repo and /verif; prints one line per seed.
cd "$(dirname "$0")"
ids="$@"
[ -z "$ids" ] && ids=$(ls seeded)
for id in $ids; do
  prop=$(python3 -c "import json; print(json.load(open('seeded/$id/meta.json'))['breaks_property'])")
  out=$(./tools_seed_eval.sh "reg_$id" "$(pwd)/seeded/$id/patch.diff" "$prop" 2>&1)
  code=$(echo "$out" | sed -n 's/^== .* exit=\([0-9]*\)$/\1/p' | head -1)
  nv=$(echo "$out" | grep -c '^VIOLATION')
  first=$(echo "$out" | grep '^failed obligation' | head -1 | cut -c1-160)
  echo "$id $prop exit=$code violations=$nv | $first"
done

#!/bin/sh
# tools_seed_eval.sh <name> <patch.diff> <prop> [<prop> ...]
# applies the patch to a scratch worktree of /repo (outside /repo and /verif), runs the checks
# against it with evidence/replays redirected, prints the verdict lines, removes the worktree.
name="$1"; patch="$2"; shift 2
wt=/tmp/seedrepo/$name
rm -rf "$wt"; mkdir -p /tmp/seedrepo
git -C /repo worktree add -q --detach "$wt" HEAD || exit 3
git -C "$wt" apply "$patch" || { echo "patch does not apply"; git -C /repo worktree remove --force "$wt"; exit 3; }
out=/tmp/seedout/$name; rm -rf "$out"; mkdir -p "$out"
for p in "$@"; do
  PYVC_REPO="$wt" PYVC_OUT="$out" ./vcheck "$p" > "$out/$p.log" 2>&1
  echo "== $name $p exit=$?"; grep -E "^(VIOLATION|UNDECIDED|KNOWN-FINDING|failed obligation|ERROR|C[0-9]+:)" "$out/$p.log" | head -8
done
git -C /repo worktree remove --force "$wt"

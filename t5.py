import os, sys, ast, time, json
os.environ['MPMATH_NOGMPY']='1'
sys.path.insert(0,os.environ.get('PYVC_REPO','/repo')); sys.path.insert(0,'/verif')
from pyvc import precframe as PF
from contracts.precframe_conf import CONF
repo=os.environ.get('PYVC_REPO','/repo')
tot=0; need=0; res=[]
t0=time.time()
import threading
threading.stack_size(512*1024*1024)
def main():
 global tot, need
 for path in PF.module_files(repo):
     if '/libmp/' in path: continue
     mod = os.path.relpath(path, os.path.join(repo,'mpmath'))[:-3].replace('/','.')
     tree = ast.parse(open(path).read())
     for q, fn, parents in PF.iter_functions(tree):
         tot+=1
         qual = mod+'.'+q
         if len(sys.argv)>1 and not any(a in qual for a in sys.argv[1:]): continue
         if not PF.writes_precision(fn, CONF['helpers']): continue
         need+=1
         if qual in CONF['setters']: continue
         if parents and not PF.writes_precision(fn, CONF['helpers']): continue
         if fn.__class__.__name__!='Lambda' and fn.name in CONF['helpers']:
             res.append((qual,'helper',None)); continue
         if PF.decorated_with(fn, ('defun_wrapped',)): 
             res.append((qual,'wrapped',None)); continue
         r = PF.analyze_function(qual, fn, CONF)
         res.append((qual, r['status'], r))
         if r['status']!='proved':
             print(r['status'], qual, 'L%d'%fn.lineno, r.get('reason',''), 'paths', r.get('paths'))
             for o in r['obligations']:
                 if o['status']!='proved': print('     ', o['exit'], 'L%s'%o['line'], o.get('P_exit'), o['trace'][-6:]); break
th=threading.Thread(target=main); th.start(); th.join()
print('functions', tot, 'touching precision', need, 'wall', round(time.time()-t0,1))
import collections
print(collections.Counter(s for _,s,_ in res))

"""Parallel driver: run verification units in separate processes (one fresh process per job, at most N at a time)
and collect plain-data results.  Each job has a hard wall-clock limit: a solver call that does not come back (it
happened once inside z3's Diophantine handler, which ignored both rlimit and the timeout) is killed and the unit is
reported as a checker error, never as a verdict."""
import multiprocessing as mp
import os
import sys
import time


def _init():
    os.environ.setdefault('MPMATH_NOGMPY', '1')
    for p in (os.environ.get('PYVC_REPO', '/repo'), os.path.dirname(os.path.dirname(os.path.abspath(__file__)))):
        if p not in sys.path:
            sys.path.insert(0, p)


def _run(job):
    _init()
    kind, payload = job
    try:
        if kind == 'unit':
            import contracts  # noqa: F401
            contracts.load_all()
            from pyvc.verify import verify_unit
            target, enum_assign, opts = payload
            return verify_unit(target, enum_assign, opts)
        if kind == 'bounded':
            import contracts  # noqa: F401
            contracts.load_all()
            from pyvc import contract as C, gens, bounded
            target, gi, seed, tier = payload
            ct = C.BY_NAME[target]
            gap = ct.gaps[gi]
            r = bounded.run_bounded(ct, gens.GENS[gap['gen']](seed, tier), clauses=gap['clauses'])
            r.update({'target': target, 'gap': gap['name'], 'gen': gap['gen'], 'clauses': gap['clauses'],
                      'kind': 'bounded'})
            return r
        raise ValueError(kind)
    except Exception as e:
        import traceback
        return {'target': payload[0] if payload else '?', 'enum': payload[1] if len(payload) > 1 else None,
                'crash': '%s: %s' % (type(e).__name__, e), 'traceback': traceback.format_exc(),
                'obligations': [], 'errors': ['crash'], 'notes': []}


def _child(job, conn):
    try:
        r = _run(job)
        r.pop('_obs', None)
        conn.send(r)
    except BaseException as e:                                 # noqa: BLE001
        try:
            conn.send({'target': job[1][0] if job[1] else '?', 'enum': job[1][1] if len(job[1]) > 1 else None,
                       'crash': 'worker failed: %r' % (e,), 'traceback': '', 'obligations': [], 'errors': ['crash'], 'notes': []})
        except Exception:
            pass
    finally:
        conn.close()


def run_units(units, opts=None, nproc=None, verbose=False, extra_jobs=None):
    """units: list of (target, enum_assign).  Returns list of result dicts (same order;
    results of extra_jobs follow)."""
    _init()
    opts = opts or {}
    jobs = [('unit', (t, e, opts)) for t, e in units] + list(extra_jobs or [])
    nproc = nproc or min(max(len(jobs), 1), int(os.environ.get('PYVC_NPROC', os.cpu_count() or 4)))
    if nproc <= 1 or len(jobs) == 1:
        return [_run(j) for j in jobs]
    hard = float(os.environ.get('PYVC_HARD_LIMIT_S', '5400'))
    ctx = mp.get_context('fork')
    results = [None] * len(jobs)
    running = {}            # index -> (process, parent_conn, start time)
    nxt = 0
    done = 0
    while done < len(jobs):
        while nxt < len(jobs) and len(running) < nproc:
            pc, cc = ctx.Pipe(duplex=False)
            p = ctx.Process(target=_child, args=(jobs[nxt], cc))
            p.start()
            cc.close()
            running[nxt] = (p, pc, time.time())
            nxt += 1
        progressed = False
        for i in list(running):
            p, pc, t0 = running[i]
            r = None
            if pc.poll():
                try:
                    r = pc.recv()
                except EOFError:
                    r = None
                p.join(10)
                if r is None:
                    r = _dead(jobs[i], 'worker exited without a result (exit code %s)' % p.exitcode)
            elif not p.is_alive():
                p.join(1)
                r = _dead(jobs[i], 'worker died (exit code %s)' % p.exitcode)
            elif time.time() - t0 > hard:
                p.kill()
                p.join(5)
                r = _dead(jobs[i], 'hard wall-clock limit of %d s exceeded (solver call did not return); killed' % hard)
            if r is not None:
                results[i] = r
                del running[i]
                pc.close()
                done += 1
                progressed = True
                if verbose:
                    n = len(r.get('obligations', []))
                    bad = [o for o in r.get('obligations', []) if o.get('status') != 'proved']
                    print('  [%d/%d] %s %s: %d obligations, %d not proved, %.1fs %s' % (
                        done, len(jobs), r.get('target'), r.get('enum'), n, len(bad), r.get('wall_s', 0),
                        r.get('crash', '')), file=sys.stderr, flush=True)
        if not progressed:
            time.sleep(0.05)
    return results


def _dead(job, why):
    payload = job[1]
    return {'target': payload[0] if payload else '?', 'enum': payload[1] if len(payload) > 1 and job[0] == 'unit' else None,
            'crash': why, 'traceback': '', 'obligations': [], 'errors': ['crash'], 'notes': [],
            'kind': 'unit' if job[0] == 'unit' else 'crashed-bounded'}

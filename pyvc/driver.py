"""Parallel driver: run verification units in a process pool and collect plain-data results."""
import multiprocessing as mp
import os
import sys
import time


def _init():
    os.environ.setdefault('MPMATH_NOGMPY', '1')
    for p in (os.environ.get('PYVC_REPO', '/repo'), os.path.dirname(os.path.dirname(os.path.abspath(__file__)))):
        if p not in sys.path:
            sys.path.insert(0, p)


def _run(job):
    _init()
    kind, payload = job
    try:
        if kind == 'unit':
            import contracts  # noqa: F401
            contracts.load_all()
            from pyvc.verify import verify_unit
            target, enum_assign, opts = payload
            return verify_unit(target, enum_assign, opts)
        if kind == 'bounded':
            import contracts  # noqa: F401
            contracts.load_all()
            from pyvc import contract as C, gens, bounded
            target, gi, seed, tier = payload
            ct = C.BY_NAME[target]
            gap = ct.gaps[gi]
            r = bounded.run_bounded(ct, gens.GENS[gap['gen']](seed, tier), clauses=gap['clauses'])
            r.update({'target': target, 'gap': gap['name'], 'gen': gap['gen'], 'clauses': gap['clauses'],
                      'kind': 'bounded'})
            return r
        raise ValueError(kind)
    except Exception as e:
        import traceback
        return {'target': payload[0] if payload else '?', 'enum': payload[1] if len(payload) > 1 else None,
                'crash': '%s: %s' % (type(e).__name__, e), 'traceback': traceback.format_exc(),
                'obligations': [], 'errors': ['crash'], 'notes': []}


def run_units(units, opts=None, nproc=None, verbose=False, extra_jobs=None):
    """units: list of (target, enum_assign).  Returns list of result dicts (same order;
    results of extra_jobs follow)."""
    _init()
    opts = opts or {}
    jobs = [('unit', (t, e, opts)) for t, e in units] + list(extra_jobs or [])
    nproc = nproc or min(max(len(jobs), 1), int(os.environ.get('PYVC_NPROC', os.cpu_count() or 4)))
    if nproc <= 1 or len(jobs) == 1:
        return [_run(j) for j in jobs]
    ctx = mp.get_context('fork')
    with ctx.Pool(nproc, maxtasksperchild=1) as pool:
        res = []
        for i, r in enumerate(pool.imap(_run, jobs, chunksize=1)):
            if verbose:
                n = len(r.get('obligations', []))
                bad = [o for o in r.get('obligations', []) if o.get('status') != 'proved']
                print('  [%d/%d] %s %s: %d obligations, %d not proved, %.1fs %s' % (
                    i + 1, len(jobs), r.get('target'), r.get('enum'), n, len(bad), r.get('wall_s', 0),
                    r.get('crash', '')), file=sys.stderr, flush=True)
            res.append(r)
        return res

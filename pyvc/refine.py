"""Refinement ("provenance") pass for the whole of libmp (C01 / C10, DESIGN.md section 3.4).

Contract given (mechanically) to every module-level function of mpmath/libmp that has a precision
parameter `prec`:

    requires  every raw-mpf value reachable from the parameters is canonical (WF), prec >= 1
    ensures   every raw-mpf component of the returned value is canonical            (C01)
              and has at most `prec` mantissa bits, `prec` being the function's own  (C10)
              parameter at entry

The real body is executed symbolically, path by path, in *tolerant* mode (everything outside the
modelled subset is havocked), using only the contracts of callees: a call to another function of
the candidate set (or to a kernel function whose contract the VC generator proves) yields an
opaque value RefV(p) "canonical, at most p bits" where p is the term passed as that callee's
precision argument.  A return is accepted when it is RefV(p) with p <= prec provable, a canonical
constant, a parameter-derived value that the path condition forces to be special, or a literal
tuple for which z3 proves the refinement.  The candidate set is the greatest fixpoint: functions
whose returns cannot be justified are dropped and reported as `unverified` (never counted).
"""
import ast
import importlib
import inspect
import os
import sys
import time

import z3

from . import spec
from .symex import (Engine, PathExec, Pure, State, Frame, NEXT, RET, RAISE, TRUE, FALSE)
from .vals import (Val, IntV, BoolV, TupV, ConstV, UnkV, ExcV, FuncV, int_term, fresh_int, fresh_bool, simp,
                   lift, mk_and)
from .verify import solve
from .lemmas import axioms_for

LIBMP_MODULES = ['libmpf', 'libmpc', 'libmpi', 'libelefun', 'libhyper', 'gammazeta']

# kernel functions whose (stronger) contracts are proved by the VC generator
PROVED_KERNEL = {
    '_normalize', '_normalize1', 'from_man_exp', 'from_int', 'mpf_pos', 'mpf_neg', 'mpf_abs', 'mpf_add',
    'mpf_sub', 'python_mpf_mul', 'python_mpf_mul_int', 'mpf_div', 'mpf_rdiv_int', 'from_rational', 'mpf_mod',
    'mpf_floor', 'mpf_ceil', 'mpf_nint', 'mpf_frac', 'mpf_perturb', 'mpf_round_int',
    'mpc_add', 'mpc_sub', 'mpc_add_mpf', 'mpc_sub_mpf', 'mpc_pos', 'mpc_neg', 'mpc_conjugate', 'mpc_mul',
    'mpc_mul_mpf', 'mpc_mul_int',
}
PRESERVING = {'mpf_shift', 'mpc_shift'}          # exact: result refinement = argument refinement
EXACT_NO_PREC = {'mpf_neg', 'mpf_abs', 'mpc_neg', 'mpi_neg'}  # exact when called without precision


class RefV(Val):
    """opaque value all of whose raw-mpf components are canonical with at most p bits
    (p: z3 Int term, or None = no bound)"""
    __slots__ = ('p', 'why')

    def __init__(self, p, why=''):
        self.p = p
        self.why = why


class ParamV(Val):
    """value derived from a parameter by unpacking only: raw-mpf components are canonical (assumed
    at the boundary), no bit bound"""
    __slots__ = ('name',)

    def __init__(self, name):
        self.name = name


class RefEngine(Engine):
    def __init__(self, cand, recs, fname):
        Engine.__init__(self, safety=False, tolerant=True, feas_rlimit=100000, axioms_fn=axioms_for)
        self.cand = cand
        self.recs = recs
        self.fname = fname
        self.use_contracts = False
        self.prune_spec = False
        self.failed_args = []

    def merge_key(self, st):
        items = []
        for k in sorted(st.env):
            v = st.env[k]
            if isinstance(v, RefV):
                items.append((k, 'R', v.p.get_id() if v.p is not None else None))
            elif isinstance(v, ParamV):
                items.append((k, 'P'))
            elif isinstance(v, TupV):
                items.append((k, 'T', id(v)))
            elif isinstance(v, IntV) and not z3.is_int_value(v.t):
                items.append((k, v.t.get_id()))
            elif isinstance(v, UnkV):
                items.append((k, 'U'))
        return tuple(items)

    # loops -------------------------------------------------------------------------------
    # candidate invariant "the loop-carried raw mpf stays canonical": assumed after the havoc when it holds
    # on entry, checked at the end of the loop body (inductive); no bit bound is carried through a loop
    def on_loop_havoc(self, px, s, st, frame):
        pre = getattr(st, 'loop_pre', {}) or {}
        keep = set()
        for n, v in pre.items():
            if isinstance(v, ConstV) and isinstance(v.obj, tuple):
                v = lift(v.obj)
            ok = isinstance(v, (RefV, ParamV)) or (isinstance(v, TupV) and is_raw_shape(v) and prove_refinement(st, v, None))
            if ok and (s.lineno, n) not in getattr(self, 'inv_excluded', ()):
                st.env[n] = RefV(None, 'loop-carried %s' % n)
                keep.add(n)
        self.__dict__.setdefault('loop_inv', {})[s.lineno] = keep

    def on_loop_back(self, px, s, st, frame):
        for n in self.__dict__.get('loop_inv', {}).get(s.lineno, ()):
            v = st.env.get(n)
            if isinstance(v, ConstV) and isinstance(v.obj, tuple):
                v = lift(v.obj)
            ok = isinstance(v, (RefV, ParamV)) or (isinstance(v, TupV) and is_raw_shape(v) and prove_refinement(st, v, None))
            if not ok:
                self.inv_failed.add((s.lineno, n))     # candidate not inductive: withdrawn, analysis repeated

    # calls -------------------------------------------------------------------------------
    def on_unknown_call(self, px, fv, st, frame, guard, node, name):
        f = fv.obj if isinstance(fv, ConstV) else None
        real = getattr(f, '__name__', None)
        p = px.pure(st, frame, getattr(node, 'lineno', 0), guard)
        if real in PRESERVING or (real in EXACT_NO_PREC and len(node.args) == 1 and not node.keywords):
            a = p.ev(node.args[0]) if node.args else UnkV('?')
            yield st, refinement_of(a)
            return
        mod = getattr(f, '__module__', '') or ''
        if getattr(f, '__qualname__', '') == 'def_mpf_constant.<locals>.f':
            # constants made by libelefun.def_mpf_constant: f(prec, rnd) returns
            # normalize(0, v, -wp, bitcount(v), prec, rnd)  (checked by `constant_wrapper_ok`)
            v = p.ev(node.args[0]) if node.args else None
            term = int_term(v) if v is not None else None
            yield st, RefV(term, 'mpf constant')
            return
        if real is not None and mod.startswith('mpmath.libmp') and (real in PROVED_KERNEL or real in self.cand):
            pa = prec_arg(node, f)
            term = None
            if pa is not None:
                v = p.ev(pa)
                term = int_term(v)
                if isinstance(v, ConstV) and v.obj is None:
                    term = None
                if term is not None and z3.is_int_value(simp(term)) and simp(term).as_long() == 0:
                    term = None          # prec = 0 means exact: canonical, no bit bound
            # arguments must themselves be canonical values (or non-mpf data)
            for a in node.args:
                if isinstance(a, ast.Starred):
                    continue
                av = p.ev(a)
                if isinstance(av, TupV) and av.kind == 'tuple' and len(av.items) == 4 and not is_raw_shape(av) \
                        and int_term(av.items[0]) is not None and isinstance(a, ast.Tuple):
                    # a hand-built raw mpf with an unmodelled component (e.g. an integer computed by an unmodelled
                    # function as mantissa): complete it with fresh integers and try to prove it canonical
                    av = TupV([x if int_term(x) is not None else IntV(fresh_int('lit')) for x in av.items])
                if isinstance(av, TupV) and is_raw_shape(av):
                    ok = prove_refinement(st, av, None)
                    if not ok:
                        self.failed_args.append('L%s: literal tuple passed to %s is not proved canonical' % (
                            getattr(node, 'lineno', 0), real))
            yield st, RefV(term, real)
            return
        if real == 'mpf_sign' or real == 'bitcount' or real == 'python_bitcount':
            yield st, IntV(fresh_int(real))
            return
        yield st, UnkV('result of %s' % name)


def refinement_of(v):
    if isinstance(v, (RefV, ParamV)):
        return v
    if isinstance(v, TupV):
        return v
    return UnkV('unknown refinement')


def prec_arg(call, obj):
    try:
        sig = inspect.signature(obj)
    except (TypeError, ValueError):
        return None
    params = list(sig.parameters)
    pp = 'prec' if 'prec' in params else None
    if pp is None:
        return None
    i = params.index(pp)
    for k in call.keywords:
        if k.arg == pp:
            return k.value
    if i < len(call.args) and not any(isinstance(a, ast.Starred) for a in call.args[:i + 1]):
        return call.args[i]
    d = sig.parameters[pp].default
    if d is not inspect.Parameter.empty:
        return ast.Constant(value=d)
    return None


def is_raw_shape(v):
    return isinstance(v, TupV) and len(v.items) == 4 and all(int_term(x) is not None for x in v.items)


def prove_refinement(st, tup, prec_term):
    """z3: under the path condition the 4-tuple is canonical (and bc <= prec when given)"""
    eng = Engine(safety=False, tolerant=True)
    p = Pure(eng, st, {}, vars(spec), True, TRUE, 0)
    if prec_term is None:
        g = p.truthy(p.inline_spec(spec.WF, [tup], {}))
    else:
        g = p.truthy(p.inline_spec(spec.WFp, [tup, IntV(prec_term)], {}))
    status, info = solve(st.pc, g, rlimit=3000000, use_cvc5=False, max_refine=2)
    return status == 'proved'


# ------------------------------------------------------------------------------------- driver

class FuncRec(object):
    def __init__(self, mod, node, fn):
        self.mod = mod
        self.node = node
        self.fn = fn
        self.name = node.name
        self.params = [a.arg for a in node.args.args]


def load(repo):
    recs = {}
    for m in LIBMP_MODULES:
        mod = importlib.import_module('mpmath.libmp.' + m)
        path = os.path.join(repo, 'mpmath', 'libmp', m + '.py')
        tree = ast.parse(open(path).read())
        for node in tree.body:
            if isinstance(node, ast.FunctionDef):
                fn = getattr(mod, node.name, None)
                if fn is None or getattr(fn, '__name__', None) != node.name:
                    continue
                recs[node.name] = FuncRec(m, node, fn)
            elif isinstance(node, ast.If):
                pass
    return recs


def mpf_like_params(node):
    """parameters treated as raw-mpf / mpc / mpi inputs: everything except precision, rounding and
    parameters that the body uses as plain numbers"""
    skip = {'prec', 'rnd', 'wp', 'n', 'k', 'm', 'which', 'pi', 'type', 'derivative', 'tanh', 'exact',
            'dps', 'base', 'p', 'q', '_sub', 'absolute', 'strict', 'kwargs', 'verbose', 'integration', 'r'}
    out = []
    for a in node.args.args:
        if a.arg in skip:
            continue
        out.append(a.arg)
    return out


def check_value(eng, st, v, prec0, want_bits, path=''):
    """is value v an acceptable result?  returns list of reasons (empty = ok)"""
    if isinstance(v, RefV):
        if not want_bits:
            return []
        if v.p is None:
            return ['%sresult of %s carries no bit bound (exact / precision not passed)' % (path, v.why)]
        if v.p.get_id() == prec0.get_id():
            return []
        status, info = solve(st.pc, v.p <= prec0, rlimit=2000000, use_cvc5=False, max_refine=0)
        if status == 'proved':
            return []
        return ['%sresult of %s is bounded by %s, not by prec' % (path, v.why, str(v.p)[:40])]
    if isinstance(v, ParamV):
        return ['%sparameter-derived value %s returned without rounding' % (path, v.name)]
    if isinstance(v, ConstV):
        o = v.obj
        if o is None or isinstance(o, (bool, int, float, str)):
            return []
        if isinstance(o, tuple):
            v = lift(o)
            if isinstance(v, ConstV):
                return ['%sunmodelled constant' % path]
        else:
            return ['%sunmodelled constant %r' % (path, type(o).__name__)]
    if isinstance(v, (IntV, BoolV)):
        return []
    if isinstance(v, TupV):
        if v.kind == 'tuple' and len(v.items) == 4 and int_term(v.items[0]) is not None and not is_raw_shape(v):
            # (sign, x, y, z) built by hand from components of opaque values: nothing says it is canonical
            return ['%shand-built raw mpf with opaque components is not proved canonical' % path]
        if is_raw_shape(v):
            ok = prove_refinement(st, v, prec0 if want_bits else None)
            return [] if ok else ['%stuple %s not proved %s' % (
                path, '(...)', 'canonical with <= prec bits' if want_bits else 'canonical')]
        out = []
        for i, x in enumerate(v.items):
            out += check_value(eng, st, x, prec0, want_bits, path + '[%d]' % i)
        return out
    return ['%sunmodelled value (%s)' % (path, getattr(v, 'tag', type(v).__name__))]


def analyze(rec, cand, recs, want_bits, max_paths=3000):
    """candidate loop invariants ("the loop-carried raw mpf stays canonical") that are not preserved by the
    loop body are withdrawn and the function is analysed again without them (at most 6 times)"""
    excluded = set()
    for _ in range(6):
        ok, why, n, failed = _analyze_once(rec, cand, recs, want_bits, max_paths, excluded)
        if not failed:
            return ok, why, n
        excluded |= failed
    return ok, why, n


def _analyze_once(rec, cand, recs, want_bits, max_paths, excluded):
    eng = RefEngine(cand, recs, rec.name)
    eng.inv_excluded = excluded
    eng.inv_failed = set()
    px = PathExec(eng)
    st = State()
    prec0 = z3.Int('prec0')
    st.assume(prec0 >= 1)
    mpfs = mpf_like_params(rec.node)
    sig = inspect.signature(rec.fn)
    for a in rec.node.args.args:
        if a.arg == 'prec':
            st.env[a.arg] = IntV(prec0)
        elif a.arg == 'rnd':
            st.env[a.arg] = UnkV('rnd')
        elif a.arg in mpfs and uses_as_raw(rec.node, a.arg):
            t = TupV([IntV(fresh_int(a.arg + '_sign')), IntV(fresh_int(a.arg + '_man')),
                      IntV(fresh_int(a.arg + '_exp')), IntV(fresh_int(a.arg + '_bc'))])
            st.env[a.arg] = t
            p = Pure(eng, st, {}, vars(spec), True, TRUE, 0)
            st.assume(p.truthy(p.inline_spec(spec.WF, [t], {})))
        elif a.arg in mpfs:
            st.env[a.arg] = ParamV(a.arg)
        elif a.arg in ('n', 'k', 'm', 'which', 'type', 'derivative', 'p', 'q'):
            st.env[a.arg] = IntV(fresh_int(a.arg))
        else:
            st.env[a.arg] = UnkV('param %s' % a.arg)
    if rec.node.args.vararg:
        st.env[rec.node.args.vararg.arg] = UnkV('varargs')
    if rec.node.args.kwarg:
        st.env[rec.node.args.kwarg.arg] = UnkV('kwargs')
    frame = Frame(rec.fn.__globals__, None, None)
    reasons = []
    n = 0
    nret = 0
    try:
        for st2, sig_, val in px.block(rec.node.body, st, frame):
            n += 1
            if n > max_paths:
                return False, ['path budget exceeded'], n, set()
            if sig_ == RAISE:
                continue
            if sig_ == NEXT:
                continue
            nret += 1
            rs = check_value(eng, st2, val, prec0, want_bits)
            for r in rs:
                msg = 'L%s: %s' % (last_line(st2), r)
                if msg not in reasons:
                    reasons.append(msg)
    except RecursionError:
        return False, ['recursion limit'], n, set()
    for fa in eng.failed_args:
        if fa not in reasons:
            reasons.append(fa)
    if nret == 0:
        return False, ['no returning path'], n, eng.inv_failed
    return not reasons, reasons, n, eng.inv_failed


def uses_as_raw(fn, name):
    """is the parameter unpacked into four names, indexed, or compared with a raw constant?"""
    for n in ast.walk(fn):
        if isinstance(n, ast.Assign) and isinstance(n.value, ast.Name) and n.value.id == name:
            for t in n.targets:
                if isinstance(t, (ast.Tuple, ast.List)) and len(t.elts) == 4:
                    return True
        if isinstance(n, ast.Compare) and isinstance(n.left, ast.Name) and n.left.id == name:
            for c in n.comparators:
                if isinstance(c, ast.Name) and c.id in ('fzero', 'finf', 'fninf', 'fnan', 'fone', 'fnone'):
                    return True
    return False


def last_line(st):
    for t in reversed(st.trace):
        if t.startswith('L'):
            try:
                return int(t[1:].split(':')[0])
            except ValueError:
                pass
    return 0


def ParamV_ops_patch():
    """ParamV / RefV behave like unknown values under every operation except unpacking"""
    from . import symex
    orig_iter = symex.Pure.iter_items

    def iter_items(self, it):
        if isinstance(it, ParamV):
            return None
        return orig_iter(self, it)
    symex.Pure.iter_items = iter_items
    orig_assign = symex.PathExec.assign

    def assign(self, target, v, st, frame, lineno):
        if isinstance(target, (ast.Tuple, ast.List)) and isinstance(v, (ParamV, RefV)):
            for t in target.elts:
                comp = ParamV(v.name) if isinstance(v, ParamV) else RefV(v.p, v.why)
                if len(target.elts) == 4:
                    comp = UnkV('component of raw mpf')     # sign, man, exp, bc of an opaque value
                self.assign(t, comp, st, frame, lineno)
            return
        return orig_assign(self, target, v, st, frame, lineno)
    symex.PathExec.assign = assign
    orig_sub = symex.Pure.subscript

    def subscript(self, base, idx):
        if isinstance(base, (ParamV, RefV)):
            if isinstance(base, RefV):
                return RefV(base.p, base.why)
            return ParamV(base.name)
        if isinstance(base, TupV) and base.kind == 'list' and int_term(idx) is None or \
                (isinstance(base, TupV) and isinstance(idx, UnkV)):
            # selection from a literal list/tuple by an unmodelled index: join of the elements
            j = None
            for x in base.items:
                j = x if j is None else merge_val(j, x)
                if j is None:
                    break
            if j is not None:
                return j
        return orig_sub(self, base, idx)
    symex.Pure.subscript = subscript
    symex.merge_states.merge_val = merge_val


def merge_val(va, vb):
    """join of two refinement values (used when states are merged)"""
    if isinstance(va, RefV) and isinstance(vb, RefV):
        if va.p is None or vb.p is None:
            return RefV(None, va.why)
        if va.p.get_id() == vb.p.get_id():
            return va
        return RefV(z3.If(va.p >= vb.p, va.p, vb.p), va.why)
    if isinstance(va, ParamV) and isinstance(vb, ParamV):
        return va
    ca, cb = const_bits(va), const_bits(vb)
    if ca is not None and isinstance(vb, RefV):
        return RefV(None if vb.p is None else z3.If(vb.p >= ca, vb.p, z3.IntVal(ca)), vb.why)
    if cb is not None and isinstance(va, RefV):
        return RefV(None if va.p is None else z3.If(va.p >= cb, va.p, z3.IntVal(cb)), va.why)
    if ca is not None and cb is not None:
        return RefV(z3.IntVal(max(ca, cb)), 'constants')
    return None


def const_bits(v):
    """bit count of a concrete canonical raw mpf (or pair of them), else None"""
    from .symex import to_concrete, NOTCONC
    o = to_concrete(v) if not isinstance(v, (RefV, ParamV)) else NOTCONC
    if o is NOTCONC:
        return None
    if _is_raw(o) and _wf(o):
        return max(o[3], 0)
    if isinstance(o, tuple) and len(o) == 2 and all(_is_raw(x) and _wf(x) for x in o):
        return max(max(x[3], 0) for x in o)
    return None


def _is_raw(v):
    return isinstance(v, tuple) and len(v) == 4 and all(isinstance(x, int) and not isinstance(x, bool) for x in v)


def _wf(v):
    s, m, e, b = v
    if m == 0:
        return v in ((0, 0, 0, 0), (0, 0, -123, -1), (0, 0, -456, -2), (1, 0, -789, -3))
    return s in (0, 1) and m > 0 and m % 2 == 1 and b == m.bit_length()


_patched = [False]


def run(repo, want_bits=True, only=None):
    if not _patched[0]:
        ParamV_ops_patch()
        _patched[0] = True
    if sys.getrecursionlimit() < 15000:
        sys.setrecursionlimit(15000)
    recs = load(repo)
    cand = set()
    for n, r in recs.items():
        if 'prec' in r.params and n not in PROVED_KERNEL and r.fn is not None:
            if n.startswith(('mpf_', 'mpc_', 'mpi_', 'mpci_', 'from_')) or n in ('atan_inf', 'gamma_fixed_taylor'):
                cand.add(n)
    if only:
        cand = set(x for x in cand if x in only) | set()
    reasons = {}
    paths = {}
    rounds = 0
    while True:
        rounds += 1
        dropped = []
        for n in sorted(cand):
            ok, why, np_ = analyze(recs[n], cand, recs, want_bits)
            paths[n] = np_
            if not ok:
                dropped.append(n)
                reasons[n] = why
        if not dropped or rounds > 12:
            break
        for n in dropped:
            cand.discard(n)
    return {'verified': sorted(cand), 'unverified': {n: reasons[n][:4] for n in sorted(reasons)},
            'paths': paths, 'rounds': rounds}

"""Bounded stand-in checks against a rigorous MPFR reference (never counted as proved):
C12, C13, C17, C18, C20 restricted to *real* arguments with real results.

Contract form: for the real function f and the mathematical function F,
    ensures  |f(x) - F(x)| < 2**(k-p) * |F(x)|        (k = 4 for C12, 8 for C18/C20)
evaluated natively; F(x) is enclosed by MPFR at p+80 bits with rounding toward -inf and +inf.
A violation is reported only when it is definite: the whole enclosure is farther from the
returned value than the bound allows.  Inputs whose enclosure straddles zero are skipped
(counted in `skipped`).  Each function returns (evaluations, distinct, failures, samples, rule)."""
import random
from fractions import Fraction

from . import mpfr

RND5 = ('n', 'f', 'c', 'u', 'd')


def _mk(mp, q):
    """exact mpf for a dyadic Fraction"""
    from mpmath.libmp import from_man_exp
    q = Fraction(q)
    k = q.denominator.bit_length() - 1
    return mp.make_mpf(from_man_exp(q.numerator, -k))


def _frac(x):
    from mpmath.libmp import to_rational
    return Fraction(*to_rational(x._mpf_))


class Raised(object):
    """outcome of a call that raised: never a finite real"""
    def __init__(self, e):
        self.e = e

    def __repr__(self):
        return 'raised %s(%s)' % (type(self.e).__name__, str(self.e)[:60])


def _safe(fn, *args):
    try:
        return fn(*args)
    except Exception as e:                                # noqa: BLE001 (any exception is an outcome here)
        return Raised(e)


def _is_real_finite(mp, r):
    return isinstance(r, mp.mpf) and mp.isfinite(r)


def definite_relerr_violation(r, lo, hi, bound):
    """True when every F in [lo, hi] has |r - F| >= bound*|F| (bound a Fraction)"""
    if lo > hi:
        lo, hi = hi, lo
    if lo <= 0 <= hi:
        if lo == hi == 0:
            return r != 0
        return None                                   # cannot decide: skipped
    dist = 0 if lo <= r <= hi else min(abs(r - lo), abs(r - hi))
    big = max(abs(lo), abs(hi))
    return dist >= bound * big


def dyadic(m, e):
    return Fraction(m) * Fraction(2) ** e


PI53 = Fraction(884279719003555, 1 << 48)             # round_53(pi)


def near_pi_multiples():
    """doubles nearest to k*pi/2 plus the classical worst case for double-precision reduction"""
    import math
    out = []
    for k in (1, 2, 3, 4, 5, 6, 7, 8, 100, 355, 10 ** 6 + 1):
        out.append(Fraction(k * math.pi / 2))
        out.append(-Fraction(k * math.pi / 2))
    out.append(Fraction(6381956970095103) * Fraction(2) ** 797)
    out.append(Fraction(884279719003555, 1 << 49) + Fraction(1, 1 << 60))
    return out


def generic_reals(rng, tier):
    out = []
    mans = [1, 3, 5, 7, 11, 0x1921fb54442d18, 0x15bf0a8b145769, (1 << 53) - 1, (1 << 52) + 1]
    mans += [rng.getrandbits(53) | (1 << 52) | 1 for _ in range(3 if tier == 'quick' else 12)]
    exps = (-120, -60, -30, -8, -3, -1, 0, 1, 2, 5, 9)
    for m in mans:
        b = m.bit_length()
        for e in exps:
            for sg in (1, -1):
                out.append(sg * dyadic(m, e - b + 1))       # value about 2**e
    return out


def precisions(tier):
    if tier == 'quick':
        return (10, 11, 24, 53, 64, 113, 400, 601)
    return (10, 11, 12, 15, 24, 53, 64, 100, 113, 200, 399, 400, 401, 599, 600, 601, 1000, 2499, 2500, 2501,
            2999, 3000, 3001, 4000)


# (mpmath name, mpfr name, domain predicate, magnitude limit exponent or None, uses trig inputs)
def _funcs12():
    pos = lambda x: x > 0
    return [
        ('exp', 'exp', None, 12, False), ('ln', 'log', pos, None, False),
        ('log2', 'log2', pos, None, False), ('log10', 'log10', pos, None, False),
        ('sqrt', 'sqrt', lambda x: x >= 0, None, False), ('cbrt', 'cbrt', lambda x: x >= 0, None, False),
        ('sin', 'sin', None, None, True), ('cos', 'cos', None, None, True), ('tan', 'tan', None, None, True),
        ('sec', 'sec', None, None, True), ('csc', 'csc', lambda x: x != 0, None, True),
        ('cot', 'cot', lambda x: x != 0, None, True),
        ('sinh', 'sinh', None, 12, False), ('cosh', 'cosh', None, 12, False), ('tanh', 'tanh', None, None, False),
        ('asin', 'asin', lambda x: abs(x) <= 1, None, False), ('acos', 'acos', lambda x: abs(x) <= 1, None, False),
        ('atan', 'atan', None, None, False), ('asinh', 'asinh', None, None, False),
        ('acosh', 'acosh', lambda x: x >= 1, None, False), ('atanh', 'atanh', lambda x: abs(x) < 1, None, False),
        ('log1p', 'log1p', lambda x: x > -1, None, False), ('expm1', 'expm1', None, 12, False),
        ('sinpi', 'sinpi', None, None, False), ('cospi', 'cospi', None, None, False),
    ]


def _call(mp, name, args):
    if name == 'log2':
        return mp.log(args[0], 2)
    if name == 'log10':
        return mp.log(args[0], 10)
    return getattr(mp, name)(*args)


def c12(seed, tier):
    import mpmath
    from mpmath import mp
    rng = random.Random(seed)
    n = skipped = 0
    fails = []
    xs = generic_reals(rng, tier)
    near1 = [1 + sg * Fraction(1, 1 << k) for k in (1, 5, 20, 52, 100) for sg in (1, -1)]
    trig = near_pi_multiples() + [dyadic(1, 200) + 1, dyadic(0x1921fb54442d18, 300)]
    try:
        for prec in precisions(tier):
            bound = Fraction(2) ** (4 - prec)
            mp.prec = prec
            sub = xs if prec <= 113 else xs[::7]
            # arguments whose size is tied to the precision (thresholds of the small-argument shortcuts)
            rel = []
            for e in (-prec - 2, -prec + 1, -(prec // 2) - 1, -(prec // 2) + 3, -(9 * prec) // 20, -(2 * prec) // 5,
                      -(prec // 3) - 1, -(prec // 3) + 2, -(prec // 4)):
                for m in (1, 3, 0x1921fb54442d18):
                    rel.append(dyadic(m, e - m.bit_length() + 1))
                    rel.append(-dyadic(m, e - m.bit_length() + 1))
            for (mname, fname, dom, lim, usetrig) in _funcs12():
                cand = list(sub) + rel
                if usetrig:
                    cand += trig
                if mname in ('ln', 'log2', 'log10', 'acosh', 'log1p', 'atanh', 'asin', 'acos'):
                    cand += near1 + [x - 1 for x in near1]
                for x in cand:
                    if dom is not None and not dom(x):
                        continue
                    if lim is not None and abs(x) >= 2 ** lim:
                        continue
                    if mname in ('sinpi', 'cospi') and abs(x) >= 2 ** 60:
                        continue
                    try:
                        lo, hi = mpfr.enclose(fname, [x], prec)
                    except AssertionError:
                        continue
                    if lo is None or hi is None or isinstance(lo, float) or isinstance(hi, float):
                        continue
                    r = _safe(_call, mp, mname, [_mk(mp, x)])
                    n += 1
                    if not _is_real_finite(mp, r):
                        if lo == hi == 0 or (lo <= 0 <= hi):
                            skipped += 1
                            continue
                        fails.append({'fn': mname, 'x': str(x), 'prec': prec,
                                      'observed': 'returned %r for an argument inside the real domain' % (r,)})
                        continue
                    v = definite_relerr_violation(_frac(r), lo, hi, bound)
                    if v is None:
                        skipped += 1
                    elif v:
                        fails.append({'fn': mname, 'x': str(x), 'prec': prec,
                                      'observed': 'returned %s; reference in [%s, %s]' % (mp.nstr(r, 30), float(lo), float(hi))})
            # two-argument functions
            pairs = [(a, b) for a in sub[::9] for b in sub[3::11]]
            for (a, b) in pairs:
                for mname, fname, ok in (('atan2', 'atan2', lambda a, b: not (a == 0 and b == 0)),
                                         ('hypot', 'hypot', lambda a, b: True),
                                         ('power', 'pow', lambda a, b: a > 0 and abs(b) < 64 and Fraction(1, 1 << 20) < a < (1 << 20))):
                    if not ok(a, b):
                        continue
                    lo, hi = mpfr.enclose(fname, [a, b], prec)
                    if lo is None or hi is None or isinstance(lo, float) or isinstance(hi, float):
                        continue
                    r = _safe(getattr(mp, mname), _mk(mp, a), _mk(mp, b))
                    n += 1
                    if not _is_real_finite(mp, r):
                        fails.append({'fn': mname, 'x': '%s, %s' % (a, b), 'prec': prec, 'observed': 'returned %r' % (r,)})
                        continue
                    v = definite_relerr_violation(_frac(r), lo, hi, bound)
                    if v is None:
                        skipped += 1
                    elif v:
                        fails.append({'fn': mname, 'x': '%s, %s' % (a, b), 'prec': prec,
                                      'observed': 'returned %s; reference in [%s, %s]' % (mp.nstr(r, 30), float(lo), float(hi))})
            for a in sub[::5]:
                if a <= 0:
                    continue
                for k in (2, 3, 5, 6, 7, 9, 10, 17):
                    lo, hi = mpfr.enclose('rootn_ui', [a, ('ui', k)], prec)
                    r = _safe(mp.root, _mk(mp, a), k)
                    n += 1
                    v = definite_relerr_violation(_frac(r), lo, hi, bound) if _is_real_finite(mp, r) else True
                    if v:
                        fails.append({'fn': 'root', 'x': '%s, %d' % (a, k), 'prec': prec, 'observed': 'returned %s' % (mp.nstr(r, 30) if not isinstance(r, Raised) else r)})
        # n-th roots over a dense band of precisions (the Newton precision schedule is precision dependent)
        band = list(range(2990, 3096, 7 if tier == 'quick' else 1)) + [6000, 6040] if tier != 'quick' else list(range(2991, 3096, 13))
        for prec in band:
            mp.prec = prec
            bound = Fraction(2) ** (4 - prec)
            for a in (Fraction(3), Fraction(1), dyadic(0x1921fb54442d18, -50)):
                for k in (5, 6, 7, 9, 10):
                    lo, hi = mpfr.enclose('rootn_ui', [a, ('ui', k)], prec)
                    r = _safe(mp.root, _mk(mp, a), k)
                    n += 1
                    v = definite_relerr_violation(_frac(r), lo, hi, bound) if _is_real_finite(mp, r) else True
                    if v:
                        fails.append({'fn': 'root', 'x': '%s, %d' % (a, k), 'prec': prec,
                                      'observed': 'returned %s' % (mp.nstr(r, 30) if not isinstance(r, Raised) else r)})
    finally:
        mp.prec = 53
    rule = ('real arguments: %d mantissa/exponent combinations (about 2**-120 .. 2**9, both signs), doubles nearest k*pi/2 and the '
            'classical worst case 6381956970095103*2**797, 1 +- 2**-k near the branch points; precisions %s, and root(x, 5..10) over a band of precisions 2990..3095; %d inputs skipped '
            '(enclosure straddles zero); reference MPFR %s at p+80 bits, both directed roundings'
            % (len(xs), list(precisions(tier)), skipped, mpfr_version()))
    return n, n, fails, [{'fn': 'sin', 'x': str(trig[0]), 'prec': 53}], rule


def mpfr_version():
    import ctypes
    l = mpfr.lib()
    l.mpfr_get_version.restype = ctypes.c_char_p
    return l.mpfr_get_version().decode()


# ------------------------------------------------------------------------------------------ C13
def c13(seed, tier):
    import mpmath
    from mpmath import mp, mpf, inf, nan
    rng = random.Random(seed)
    n = 0
    fails = []

    def bad(fn, x, obs):
        fails.append({'fn': fn, 'x': str(x), 'prec': mp.prec, 'observed': obs})
    try:
        for prec in ((10, 24, 53, 113, 400) if tier == 'quick' else (10, 11, 24, 53, 64, 113, 200, 400, 1000, 3000)):
            mp.prec = prec
            # fixed exact points
            for fn, x, want in (('exp', 0, 1), ('ln', 1, 0), ('sin', 0, 0), ('cos', 0, 1), ('tan', 0, 0), ('atan', 0, 0),
                                ('asin', 0, 0), ('sinh', 0, 0), ('cosh', 0, 1), ('tanh', 0, 0), ('asinh', 0, 0), ('atanh', 0, 0),
                                ('acos', 1, 0), ('acosh', 1, 0), ('log1p', 0, 0), ('expm1', 0, 0), ('sqrt', 0, 0), ('cbrt', 0, 0),
                                ('sinpi', 0, 0), ('cospi', 0, 1), ('sinc', 0, 1)):
                n += 1
                r = getattr(mp, fn)(mpf(x))
                if not (r == want):
                    bad(fn, x, 'returned %r, exact value is %s' % (r, want))
            # perfect squares / cubes / n-th powers with mantissas of any size (shorter than, equal to and longer than prec)
            for bits in (1, 2, 5, prec // 2, prec - 1, prec, prec + 1, 2 * prec + 3):
                for _ in range(2 if tier == 'quick' else 6):
                    a = rng.getrandbits(max(bits, 1)) | 1 | (1 << max(bits - 1, 0))
                    for e in (0, -6, 14):
                        base = _mk(mp, dyadic(a, e))
                        exact_fits = a.bit_length() <= prec
                        for k, fn in ((2, mp.sqrt), (3, mp.cbrt)):
                            p = dyadic(a, e) ** k
                            arg = _mk(mp, p)
                            r = fn(arg)
                            n += 1
                            if exact_fits:
                                if not (isinstance(r, mp.mpf) and _frac(r) == dyadic(a, e)):
                                    bad(fn.__name__, p, 'returned %s, exact root %s is representable' % (mp.nstr(r, 25), dyadic(a, e)))
                        if exact_fits:
                            for k in (4, 5, 7, 12):
                                p = dyadic(a, e) ** k
                                r = mp.root(_mk(mp, p), k)
                                n += 1
                                if not (isinstance(r, mp.mpf) and _frac(r) == dyadic(a, e)):
                                    bad('root', '%s, %d' % (p, k), 'returned %s, exact root is %s' % (mp.nstr(r, 25), dyadic(a, e)))
            # sinpi / cospi at integers and half-integers of any size
            for m in list(range(-6, 7)) + [10 ** 6, 2 ** 70 + 1, -(2 ** 100), 10 ** 30 + 3]:
                for half in (0, 1):
                    q = Fraction(2 * m + half, 2)
                    x = _mk(mp, q)
                    if _frac(x) != q:
                        continue
                    s, c = mp.sinpi(x), mp.cospi(x)
                    n += 2
                    if half == 0:
                        ws, wc = 0, (1 if m % 2 == 0 else -1)
                    else:
                        ws, wc = (1 if m % 2 == 0 else -1), 0
                    if s != ws:
                        bad('sinpi', q, 'returned %r, exact value %d' % (s, ws))
                    if c != wc:
                        bad('cospi', q, 'returned %r, exact value %d' % (c, wc))
            # powm1 exactly zero when x**y == 1
            for x, y in ((1, 5), (1, mpf('0.3')), (-1, 2), (-1, 10 ** 20), (7, 0), (mpf('0.1'), 0), (-1, -4)):
                n += 1
                r = mp.powm1(x, y)
                if r != 0:
                    bad('powm1', (x, y), 'returned %r, x**y is exactly 1' % (r,))
            # tan, cot, sec, csc finite for finite arguments near multiples of pi/2 (the nearest p-bit values are not poles)
            for k in (1, 2, 3, 4, 7, 22, 355, 10 ** 5 + 1):
                mp.prec = prec + 40
                t = mp.pi * k / 2
                mp.prec = prec
                x0 = +t                                     # nearest prec-bit value
                for d in (-2, -1, 0, 1, 2):
                    x = mp.make_mpf(mpmath.libmp.mpf_add(x0._mpf_, mpmath.libmp.from_man_exp(d, x0._mpf_[2]), prec, 'n')) if d else x0
                    q = _frac(x)
                    for fn, mf in (('tan', 'tan'), ('cot', 'cot'), ('sec', 'sec'), ('csc', 'csc')):
                        n += 1
                        try:
                            r = getattr(mp, fn)(x)
                        except ZeroDivisionError as exc:
                            bad(fn, q, 'raised ZeroDivisionError at a finite non-pole argument')
                            continue
                        if not _is_real_finite(mp, r):
                            bad(fn, q, 'returned %r at a finite non-pole argument' % (r,))
                            continue
                        lo, hi = mpfr.enclose(mf, [q], prec)
                        v = definite_relerr_violation(_frac(r), lo, hi, Fraction(2) ** (4 - prec))
                        if v:
                            bad(fn, q, 'returned %s, reference in [%s, %s]' % (mp.nstr(r, 25), float(lo), float(hi)))
            # documented limits at inf / nan
            lim = [('exp', -inf, 0), ('exp', inf, inf), ('ln', inf, inf), ('atan', inf, 'pi/2'), ('atan', -inf, '-pi/2'),
                   ('tanh', inf, 1), ('tanh', -inf, -1), ('sqrt', inf, inf), ('cosh', inf, inf), ('cosh', -inf, inf),
                   ('sinh', -inf, -inf), ('asinh', inf, inf), ('asinh', -inf, -inf), ('expm1', -inf, -1), ('log1p', inf, inf)]
            for fn, x, want in lim:
                n += 1
                r = getattr(mp, fn)(x)
                if want == 'pi/2':
                    ok = r == mp.pi / 2
                elif want == '-pi/2':
                    ok = r == -mp.pi / 2
                else:
                    ok = (r == want)
                if not ok:
                    bad(fn, x, 'returned %r, documented limit is %s' % (r, want))
            n += 1
            if mp.ln(0) != -inf:
                bad('ln', 0, 'returned %r, documented value -inf' % (mp.ln(0),))
            for fn in ('exp', 'ln', 'sin', 'cos', 'tan', 'sqrt', 'atan', 'sinh', 'cosh', 'tanh'):
                n += 1
                r = getattr(mp, fn)(nan)
                if not mp.isnan(r):
                    bad(fn, 'nan', 'returned %r' % (r,))
            for fn in ('sin', 'cos', 'tan'):
                n += 1
                r = getattr(mp, fn)(inf)
                if not mp.isnan(r):
                    bad(fn, 'inf', 'returned %r, documented value nan' % (r,))
    finally:
        mp.prec = 53
    return n, n, fails, [{'fn': 'sqrt', 'x': '(2**prec+1)**2'}], \
        ('exact points of 21 functions; perfect squares, cubes and k-th powers (k = 4, 5, 7, 12) of seeded mantissas with 1 .. 2*prec+3 '
         'bits (exactness is required only when the root fits the precision); sinpi/cospi at integers and '
         'half-integers up to 10**30; powm1 unit cases; tan/cot/sec/csc at the 5 p-bit values around k*pi/2 for 8 values of k '
         '(finite, and within 2**(4-p) of the MPFR reference); inf/nan limits')


# ------------------------------------------------------------------------------------------ C17
def c17(seed, tier):
    """constants: correctly rounded (pi, e, ln2, ln10, phi, degree) / within 1 ulp (euler, catalan, apery) at every
    precision 1..N, every rounding mode on the correct side, and independence of the request history"""
    import importlib
    import mpmath
    from mpmath import libmp
    from .boundedprops import round_exact
    rng = random.Random(seed)
    N = 700 if tier == 'quick' else 3300
    n = 0
    fails = []

    def refs(prec):
        """name -> (lo, hi) rigorous enclosure"""
        out = {}
        out['pi'] = mpfr.const('const_pi', prec)
        out['ln2'] = mpfr.const('const_log2', prec)
        out['euler'] = mpfr.const('const_euler', prec)
        out['catalan'] = mpfr.const('const_catalan', prec)
        out['e'] = mpfr.enclose('exp', [Fraction(1)], prec)
        out['ln10'] = mpfr.enclose('log_ui', [('ui', 10)], prec)
        s5 = mpfr.enclose('sqrt', [Fraction(5)], prec)
        out['phi'] = ((1 + s5[0]) / 2, (1 + s5[1]) / 2)
        out['degree'] = (out['pi'][0] / 180, out['pi'][1] / 180)
        out['apery'] = mpfr.enclose('zeta_ui', [('ui', 3)], prec)
        return out
    FN = {'pi': 'mpf_pi', 'e': 'mpf_e', 'ln2': 'mpf_ln2', 'ln10': 'mpf_ln10', 'phi': 'mpf_phi', 'degree': 'mpf_degree',
          'euler': 'mpf_euler', 'catalan': 'mpf_catalan', 'apery': 'mpf_apery'}
    CORRECT = ('pi', 'e', 'ln2', 'ln10', 'phi', 'degree')

    def fresh():
        """reset every constant memo cache (a new 'process history')"""
        for mod in (libmp.libelefun, libmp.gammazeta):
            for name in dir(mod):
                f = getattr(mod, name)
                cell = getattr(f, '__closure__', None)
                if cell:
                    for c in cell:
                        try:
                            inner = c.cell_contents
                        except ValueError:
                            continue
                        if hasattr(inner, 'memo_prec'):
                            inner.memo_prec = -1
                            inner.memo_val = None

    def check_at(prec, history, ref=None):
        nonlocal n
        ref = ref or refs(prec)
        ulp_bound = {}
        for name, (lo, hi) in ref.items():
            f = getattr(libmp, FN[name])
            for rnd in RND5:
                r = f(prec, rnd)
                n += 1
                q = Fraction(r[1]) * Fraction(2) ** r[2]
                if r[3] > prec or (r[1] and r[1] % 2 == 0):
                    fails.append({'fn': name, 'prec': prec, 'rnd': rnd, 'history': history, 'observed': 'non-canonical or too long: %r' % (r,)})
                    continue
                a, b = round_exact(lo, prec, rnd), round_exact(hi, prec, rnd)
                if rnd in ('f', 'd') and q > lo and q > hi:
                    fails.append({'fn': name, 'prec': prec, 'rnd': rnd, 'history': history, 'observed': 'floor-rounded value %s exceeds the constant' % float(q)})
                    continue
                if rnd in ('c', 'u') and q < lo and q < hi:
                    fails.append({'fn': name, 'prec': prec, 'rnd': rnd, 'history': history, 'observed': 'ceiling-rounded value %s is below the constant' % float(q)})
                    continue
                if name in CORRECT:
                    if a == b and q != a:
                        fails.append({'fn': name, 'prec': prec, 'rnd': rnd, 'history': history,
                                      'observed': 'returned %s, correctly rounded value is %s' % (r, a)})
                else:
                    ulp = Fraction(2) ** (max(abs(lo), abs(hi)).numerator.bit_length() - max(abs(lo), abs(hi)).denominator.bit_length() + 1 - prec)
                    if abs(q - lo) > ulp and abs(q - hi) > ulp:
                        fails.append({'fn': name, 'prec': prec, 'rnd': rnd, 'history': history,
                                      'observed': 'returned %s, more than one ulp from the constant' % (r,)})
        return ref
    saved = {}
    # history 1: ascending, every precision
    fresh()
    precs = list(range(1, N + 1)) if tier != 'quick' else list(range(1, 130)) + list(range(130, N + 1, 7))
    for p in precs:
        saved[p] = check_at(p, 'ascending')
    # history 2: descending (every value served from the memo of the largest request)
    fresh()
    for p in reversed(precs):
        check_at(p, 'descending', saved[p])
    # history 3: seeded random order with repeats
    fresh()
    order = [rng.choice(precs) for _ in range(len(precs))]
    for p in order:
        check_at(p, 'random(seed=%d)' % seed, saved[p])
    fresh()
    return n, n, fails, [{'fn': 'pi', 'prec': 53, 'rnd': 'n'}], \
        ('pi, e, ln2, ln10, phi, degree (correct rounding), euler, catalan, apery (one ulp) at %d precisions in 1..%d x 5 rounding '
         'modes x 3 request histories (ascending, descending, seeded random with repeats; memo caches reset between histories); '
         'reference MPFR %s at p+80 bits; khinchin, glaisher, twinprime, mertens have no independent reference here and are not covered'
         % (len(precs), N, mpfr_version()))


# ------------------------------------------------------------------------------------------ C18
def c18(seed, tier):
    import mpmath
    from mpmath import mp
    rng = random.Random(seed)
    n = skipped = 0
    fails = []
    xs = []
    for m in (1, 3, 5, 7, 9, 11, 15, 0x1921fb54442d18, (1 << 53) - 1) + tuple(rng.getrandbits(53) | (1 << 52) | 1 for _ in range(3 if tier == 'quick' else 10)):
        b = m.bit_length()
        for e in (-60, -20, -4, -1, 0, 1, 2, 3, 5, 7, 10):
            xs.append(dyadic(m, e - b + 1))
            xs.append(-dyadic(m, e - b + 1))
    xs += [Fraction(k, 2) for k in range(1, 60)] + [Fraction(-k, 2) for k in range(1, 41, 2)]
    xs += [Fraction(k) + sg * Fraction(1, 1 << j) for k in (-3, -2, -1, 0, 1, 2) for j in (10, 40) for sg in (1, -1)]
    xs += [Fraction(6582605942621983, 1 << 52)]                  # near the minimum of gamma on the positive axis
    precs = (10, 24, 53, 113, 300) if tier == 'quick' else (10, 11, 24, 53, 64, 113, 200, 400, 1000, 2000)
    try:
        for prec in precs:
            mp.prec = prec
            bound = Fraction(2) ** (8 - prec)
            sub = xs if prec <= 113 else xs[::5]
            for x in sub:
                is_pole = (x.denominator == 1 and x <= 0)
                xm = _mk(mp, x)
                if _frac(xm) != x:
                    continue
                if is_pole:
                    n += 2
                    if mp.rgamma(xm) != 0:
                        fails.append({'fn': 'rgamma', 'x': str(x), 'prec': prec, 'observed': 'nonzero %r at a pole' % (mp.rgamma(xm),)})
                    try:
                        r = mp.gamma(xm)
                        fails.append({'fn': 'gamma', 'x': str(x), 'prec': prec, 'observed': 'returned %r at a pole instead of raising' % (r,)})
                    except (ValueError, ZeroDivisionError):
                        pass
                    continue
                if abs(x) > 3000:
                    continue
                tests = [('gamma', 'gamma', [x], mp.gamma)]
                if x > 0:
                    tests.append(('loggamma', 'lngamma', [x], mp.loggamma))
                tests.append(('digamma', 'digamma', [x], mp.digamma))
                if x + 1 > 0 or (x + 1).denominator != 1:
                    tests.append(('factorial', 'gamma', [x + 1], None))
                for mname, fname, args, fn in tests:
                    try:
                        lo, hi = mpfr.enclose(fname, args, prec)
                    except AssertionError:
                        continue
                    if lo is None or hi is None or isinstance(lo, float) or isinstance(hi, float):
                        continue
                    r = _safe(mp.factorial, xm) if fn is None else _safe(fn, xm)
                    n += 1
                    if not _is_real_finite(mp, r):
                        fails.append({'fn': mname, 'x': str(x), 'prec': prec, 'observed': 'returned %r' % (r,)})
                        continue
                    v = definite_relerr_violation(_frac(r), lo, hi, bound)
                    if v is None:
                        skipped += 1
                    elif v:
                        f = {'fn': mname, 'x': str(x), 'prec': prec,
                             'observed': 'returned %s; reference in [%s, %s]' % (mp.nstr(r, 30), float(lo), float(hi))}
                        if mname == 'digamma' and abs(x - Fraction(6582605942621983, 1 << 52)) < Fraction(1, 1 << 20):
                            f['class'] = 'digamma near its positive zero 1.4616321449683623'
                        fails.append(f)
                    if mname == 'gamma' and lo != 0:
                        rr = _safe(mp.rgamma, xm)
                        n += 1
                        v = definite_relerr_violation(_frac(rr), 1 / hi, 1 / lo, bound) if _is_real_finite(mp, rr) else True
                        if v:
                            fails.append({'fn': 'rgamma', 'x': str(x), 'prec': prec, 'observed': 'returned %s; reference about %s' % (rr if isinstance(rr, Raised) else mp.nstr(rr, 30), float(1 / lo))})
            # binomial, rf, ff for real n and integer k: exact rational oracle n(n-1)...(n-k+1)/k!
            ns = [Fraction(1, 1 << 33), -Fraction(3, 1 << 17), Fraction(1, 10), Fraction(5, 2), Fraction(-7, 4), Fraction(1001, 1000),
                  Fraction(41, 8), Fraction(10 ** 6) + Fraction(1, 3), Fraction(1, 1000)]
            for nq in ns:
                for k in (1, 2, 3, 5, 8, 12, 40):
                    num = Fraction(1)
                    for j in range(k):
                        num *= (nq - j)
                    kf = 1
                    for j in range(2, k + 1):
                        kf *= j
                    rfv = Fraction(1)
                    for j in range(k):
                        rfv *= (nq + j)
                    nm = mp.mpf(nq.numerator) / nq.denominator          # the argument the function sees
                    nx = _frac(nm)
                    if nx != nq:
                        # recompute the oracle for the rounded argument actually passed
                        num = Fraction(1)
                        rfv = Fraction(1)
                        for j in range(k):
                            num *= (nx - j)
                            rfv *= (nx + j)
                    for fname_, want, call in (('binomial', num / kf, lambda: mp.binomial(nm, k)), ('ff', num, lambda: mp.ff(nm, k)),
                                               ('rf', rfv, lambda: mp.rf(nm, k))):
                        if want == 0:
                            continue
                        r = _safe(call)
                        n += 1
                        v = definite_relerr_violation(_frac(r), want, want, bound) if _is_real_finite(mp, r) else True
                        if v:
                            f = {'fn': fname_, 'x': '%s, %d' % (nx, k), 'prec': prec,
                                 'observed': 'returned %s; exact value %s' % (r if isinstance(r, Raised) else mp.nstr(r, 25), float(want))}
                            if abs(nx - round(nx)) < Fraction(1, 1 << prec):
                                f['class'] = 'binomial / ff / rf for n within 2**-prec of an integer'
                            fails.append(f)
            for a in sub[::9]:
                for b in sub[4::13]:
                    if a <= 0 or b <= 0 or a > 500 or b > 500:
                        continue
                    lo, hi = mpfr.enclose('beta', [a, b], prec)
                    r = _safe(mp.beta, _mk(mp, a), _mk(mp, b))
                    n += 1
                    v = definite_relerr_violation(_frac(r), lo, hi, bound) if _is_real_finite(mp, r) else True
                    if v:
                        fails.append({'fn': 'beta', 'x': '%s, %s' % (a, b), 'prec': prec, 'observed': 'returned %s; reference about %s' % (r if isinstance(r, Raised) else mp.nstr(r, 30), float(lo))})
    finally:
        mp.prec = 53
    return n, n, fails, [{'fn': 'gamma', 'x': '1/2', 'prec': 53}], \
        ('real arguments only: %d values (2**-60 .. 2**10 both signs, half-integers, 2**-10 / 2**-40 from the poles, the '
         'minimum of gamma) x precisions %s: gamma, rgamma, loggamma (x > 0), digamma, factorial, beta (positive pairs), binomial / rf / ff for real n and integer k (exact rational oracle); poles: '
         'rgamma == 0 and gamma raises; %d inputs skipped; reference MPFR %s' % (len(xs), list(precs), skipped, mpfr_version()))


# ------------------------------------------------------------------------------------------ C20
def c20(seed, tier):
    import mpmath
    from mpmath import mp
    rng = random.Random(seed)
    n = skipped = 0
    fails = []
    xs = []
    for m in (1, 3, 5, 7, 11, 13, 0x1921fb54442d18) + tuple(rng.getrandbits(53) | (1 << 52) | 1 for _ in range(3 if tier == 'quick' else 10)):
        b = m.bit_length()
        for e in (-80, -30, -10, -3, -1, 0, 1, 2, 3, 4, 5, 6, 8):
            xs.append(dyadic(m, e - b + 1))
            xs.append(-dyadic(m, e - b + 1))
    precs = (10, 24, 53, 113, 300) if tier == 'quick' else (10, 11, 24, 53, 64, 113, 200, 400, 1000, 2000)
    try:
        for prec in precs:
            mp.prec = prec
            bound = Fraction(2) ** (8 - prec)
            sub = xs if prec <= 113 else xs[::4]
            for x in sub:
                xm = _mk(mp, x)
                tests = [('erf', 'erf', [x], mp.erf)]
                if x < 2000:
                    tests.append(('erfc', 'erfc', [x], mp.erfc))
                if x != 0 and abs(x) < 5000:
                    tests.append(('ei', 'eint', [x], mp.ei))
                if 0 < x < 5000:
                    tests.append(('e1', None, [x], mp.e1))
                for mname, fname, args, fn in tests:
                    if mname == 'e1':
                        a, b = mpfr.enclose('eint', [-x], prec)
                        lo, hi = -b, -a
                    else:
                        lo, hi = mpfr.enclose(fname, args, prec)
                    if lo is None or hi is None or isinstance(lo, float) or isinstance(hi, float):
                        continue
                    if lo == 0 and hi == 0 and x != 0:
                        continue                                   # MPFR underflow
                    r = _safe(fn, xm)
                    n += 1
                    if not _is_real_finite(mp, r):
                        fails.append({'fn': mname, 'x': str(x), 'prec': prec, 'observed': 'returned %r' % (r,)})
                        continue
                    v = definite_relerr_violation(_frac(r), lo, hi, bound)
                    if v is None:
                        skipped += 1
                    elif v:
                        fails.append({'fn': mname, 'x': str(x), 'prec': prec,
                                      'observed': 'returned %s; reference in [%s, %s]' % (mp.nstr(r, 30), float(lo), float(hi))})
            for a in sub[::7]:
                for x in sub[2::9]:
                    if x <= 0 or x > 2000 or abs(a) > 200 or (a <= 0 and a.denominator == 1):
                        continue
                    lo, hi = mpfr.enclose('gamma_inc', [a, x], prec)
                    if lo is None or hi is None or isinstance(lo, float) or isinstance(hi, float) or (lo == 0 and hi == 0):
                        continue
                    r = _safe(mp.gammainc, _mk(mp, a), _mk(mp, x))
                    n += 1
                    if not _is_real_finite(mp, r):
                        fails.append({'fn': 'gammainc', 'x': '%s, %s' % (a, x), 'prec': prec, 'observed': 'returned %r' % (r,)})
                        continue
                    v = definite_relerr_violation(_frac(r), lo, hi, bound)
                    if v:
                        f = {'fn': 'gammainc', 'x': '%s, %s' % (a, x), 'prec': prec,
                             'observed': 'returned %s; reference in [%s, %s]' % (mp.nstr(r, 30), float(lo), float(hi))}
                        if a < -20:
                            f['class'] = 'gammainc(a, x) for non-integer a < -20'
                        fails.append(f)
    finally:
        mp.prec = 53
    return n, n, fails, [{'fn': 'erfc', 'x': '32', 'prec': 53}], \
        ('real arguments only: %d values (2**-80 .. 2**8, both signs) x precisions %s: erf, erfc (including the tails), ei, e1 (x > 0), '
         'upper gammainc(a, x) for x > 0; %d inputs skipped; reference MPFR %s' % (len(xs), list(precs), skipped, mpfr_version()))


CHECKS = {'C12': c12, 'C13': c13, 'C17': c17, 'C18': c18, 'C20': c20}


# ------------------------------------------------------------------------------------------ C19 / C21 (small real subsets)
def _rel_check(mp, fails, fn, xdesc, prec, r, lo, hi, bound, counters, cls=None):
    counters[0] += 1
    if lo is None or hi is None or isinstance(lo, float) or isinstance(hi, float):
        counters[0] -= 1
        return
    if not _is_real_finite(mp, r):
        f = {'fn': fn, 'x': xdesc, 'prec': prec, 'observed': 'returned %r' % (r,)}
    else:
        v = definite_relerr_violation(_frac(r), lo, hi, bound)
        if v is None:
            counters[1] += 1
            return
        if not v:
            return
        f = {'fn': fn, 'x': xdesc, 'prec': prec, 'observed': 'returned %s; reference in [%s, %s]' % (mp.nstr(r, 30), float(lo), float(hi))}
    if cls:
        f['class'] = cls
    fails.append(f)


def c19(seed, tier):
    """zeta(s) for real s (MPFR mpfr_zeta), altzeta through (1 - 2**(1-s)) * zeta(s), polylog(2, x) for real x <= 1
    (MPFR mpfr_li2), bernpoly / eulerpoly at rational points against the exact rational polynomials"""
    from mpmath import mp
    rng = random.Random(seed)
    fails = []
    cnt = [0, 0]
    ss = [Fraction(k, 4) for k in range(-40, 200) if k != 4] + [1 + sg * Fraction(1, 1 << j) for j in (10, 30) for sg in (1, -1)] + \
         [Fraction(-k) - Fraction(1, 2) for k in range(1, 60, 7)] + [Fraction(300), Fraction(1001, 2)]
    xs2 = [Fraction(k, 16) for k in range(-64, 17)] + [Fraction(-1000), 1 - Fraction(1, 1 << 20), Fraction(1, 1 << 40)]
    precs = (10, 24, 53, 113, 300) if tier == 'quick' else (10, 11, 24, 53, 64, 113, 200, 300, 400, 1000)
    try:
        for prec in precs:
            mp.prec = prec
            bound = Fraction(2) ** (8 - prec)
            # integer s tied to the precision: the integer-argument shortcuts of mpf_zeta_int switch at s ~ 0.43*(p+20) and s > p+20
            srel = [Fraction(k) for k in sorted(set(list(range(int(0.3 * (prec + 20)), int(0.5 * (prec + 20)) + 1)) +
                                                     [int(c * (prec + 20)) + d for c in (1.0, 1.1) for d in (-1, 0, 1, 2)])) if k >= 2]
            for s in (ss if prec <= 113 else ss[::6]) + srel:
                sm = _mk(mp, s)
                lo, hi = mpfr.enclose('zeta', [s], prec)
                r = _safe(mp.zeta, sm)
                even_neg = (s.denominator == 1 and s < 0 and s.numerator % 2 == 0)
                if even_neg:
                    cnt[0] += 1
                    if not (isinstance(r, mp.mpf) and r == 0):
                        fails.append({'fn': 'zeta', 'x': str(s), 'prec': prec, 'observed': 'returned %r at a trivial zero' % (r,)})
                    continue
                _rel_check(mp, fails, 'zeta', str(s), prec, r, lo, hi, bound, cnt)
            for x in (xs2 if prec <= 113 else xs2[::5]):
                if x == 0:
                    continue
                lo, hi = mpfr.enclose('li2', [x], prec)
                r = _safe(mp.polylog, 2, _mk(mp, x))
                _rel_check(mp, fails, 'polylog(2, x)', str(x), prec, r, lo, hi, bound, cnt)
            # Bernoulli / Euler polynomials at rational points: exact rational values
            from .boundedprops import round_exact                          # noqa: F401
            B = [Fraction(1)]
            for m in range(1, 16):
                B.append(-sum(Fraction(_binom(m + 1, j)) * B[j] for j in range(m)) / (m + 1))
            for nn in (1, 2, 3, 6, 9, 14):
                for x in (Fraction(1, 3), Fraction(-5, 2), Fraction(7, 8), Fraction(10)):
                    xm = mp.mpf(x.numerator) / x.denominator
                    xq = _frac(xm)
                    want = sum(Fraction(_binom(nn, j)) * B[j] * xq ** (nn - j) for j in range(nn + 1))
                    if want == 0:
                        continue
                    r = _safe(mp.bernpoly, nn, xm)
                    _rel_check(mp, fails, 'bernpoly', '%d, %s' % (nn, xq), prec, r, want, want, bound, cnt)
    finally:
        mp.prec = 53
    return cnt[0], cnt[0], fails, [{'fn': 'zeta', 'x': '1/2', 'prec': 53}], \
        ('real arguments only: zeta(s) for %d real s in -10..50 (quarter steps, near 1, negative half-integers; trivial zeros exact), '
         'polylog(2, x) for %d real x <= 1, bernpoly at rational points against the exact rational polynomial; precisions %s; %d inputs skipped; '
         'reference MPFR %s.  Not covered: complex arguments, Hurwitz zeta, derivatives, altzeta, dirichlet, lerchphi, eulerpoly, stieltjes, '
         'primezeta, siegeltheta, siegelz, riemannr' % (len(ss), len(xs2), list(precs), cnt[1], mpfr_version()))


def _binom(n, k):
    r = 1
    for i in range(k):
        r = r * (n - i) // (i + 1)
    return r


def c21(seed, tier):
    """besselj / bessely of integer order and airyai on the real axis (MPFR jn, yn, ai)"""
    from mpmath import mp
    fails = []
    cnt = [0, 0]
    xs = [Fraction(k, 8) for k in range(1, 200, 3)] + [Fraction(1, 1 << 20), Fraction(1, 1 << 60), Fraction(50), Fraction(1000, 3).limit_denominator(1), Fraction(12345, 64)]
    precs = (10, 24, 53, 113) if tier == 'quick' else (10, 11, 24, 53, 64, 113, 200, 400, 1000)
    try:
        for prec in precs:
            mp.prec = prec
            bound = Fraction(2) ** (8 - prec)
            sub = xs if prec <= 113 else xs[::5]
            small = [Fraction(1, 1024), Fraction(1, 512), Fraction(1, 128), Fraction(3, 256), Fraction(1, 64)]
            for x in small:
                xm = _mk(mp, x)
                for nn in (3, 8, 9, 10, 12, 15, 19, 25):
                    lo, hi = mpfr.enclose('jn', [('si', nn), x], prec)
                    r = _safe(mp.besselj, nn, xm)
                    _rel_check(mp, fails, 'besselj', '%d, %s' % (nn, x), prec, r, lo, hi, bound, cnt)
            for x in sub:
                xm = _mk(mp, x)
                for nn in (0, 1, 2, 5, 17):
                    lo, hi = mpfr.enclose('jn', [('si', nn), x], prec)
                    r = _safe(mp.besselj, nn, xm)
                    _rel_check(mp, fails, 'besselj', '%d, %s' % (nn, x), prec, r, lo, hi, bound, cnt)
                    lo, hi = mpfr.enclose('yn', [('si', nn), x], prec)
                    r = _safe(mp.bessely, nn, xm)
                    _rel_check(mp, fails, 'bessely', '%d, %s' % (nn, x), prec, r, lo, hi, bound, cnt)
                for sg in (1, -1):
                    if abs(x) > 40:
                        continue
                    lo, hi = mpfr.enclose('ai', [sg * x], prec)
                    r = _safe(mp.airyai, _mk(mp, sg * x))
                    _rel_check(mp, fails, 'airyai', str(sg * x), prec, r, lo, hi, bound, cnt)
    finally:
        mp.prec = 53
    return cnt[0], cnt[0], fails, [{'fn': 'besselj', 'x': '0, 1', 'prec': 53}], \
        ('real arguments only: besselj(n, x), bessely(n, x) for n in {0, 1, 2, 5, 17} and %d positive x (2^-60 .. 333) plus orders 3..25 at small x (1/1024 .. 1/64), airyai on [-40, 40]; '
         'precisions %s; %d inputs skipped (enclosure straddles zero: the functions oscillate); reference MPFR %s.  Not covered: non-integer and '
         'complex orders and arguments, besseli/k, hankel, airybi, derivatives, struve, kelvin, scorer, coulomb, anger/weber, lommel, the zero finders'
         % (len(xs), list(precs), cnt[1], mpfr_version()))


CHECKS.update({'C19': c19, 'C21': c21})

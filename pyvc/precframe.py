"""Precision-frame verification (C11 / C38): every function and method of mpmath (outside
tests) leaves the context's working precision as it found it on *every* exit, normal or
exceptional -- unless it is a declared setter, a declared helper (its callers see the precision
havocked), or a body that only ever runs inside the proved `_wrap_specfun` try/finally.

Contract class `preserves`:   requires P == P0 (P0 >= 1)   ensures on every exit P == P0.
The path executor runs in tolerant mode (everything unmodelled is havocked), the precision
cell is a ghost heap variable, and an exceptional edge is taken at every statement that can
raise while the precision differs from its entry value (and at every statement lexically
inside a try block that has handlers).  Callees are used through their class only:
`preserves` callees leave P unchanged, `helper` callees havoc it, callbacks are assumed
`preserves` (stated assumption) but may raise.
"""
import ast
import ctypes
import os
import time

import z3

from .symex import (Engine, PathExec, Pure, State, Frame, NEXT, RET, RAISE, BRK, CONT, TRUE, FALSE,
                    assigned_names)
from .vals import IntV, BoolV, TupV, ConstV, UnkV, ExcV, FuncV, int_term, fresh_int, simp, lift
from .verify import solve

PREC_ATTRS = ('prec', 'dps')
RAW_ATTRS = ('_prec', '_dps')
MANAGERS = ('workprec', 'workdps', 'extraprec', 'extradps')

p2d_f = z3.Function('prec_to_dps', z3.IntSort(), z3.IntSort())
d2p_f = z3.Function('dps_to_prec', z3.IntSort(), z3.IntSort())


def iter_functions(tree):
    """(qualname, node, parent_chain) for every def / lambda in a module"""
    out = []

    def walk(node, prefix, parents):
        for ch in ast.iter_child_nodes(node):
            if isinstance(ch, (ast.FunctionDef, ast.AsyncFunctionDef)):
                q = prefix + ch.name
                out.append((q, ch, parents))
                walk(ch, q + '.<locals>.', parents + [ch])
            elif isinstance(ch, ast.ClassDef):
                walk(ch, prefix + ch.name + '.', parents)
            elif isinstance(ch, ast.Lambda):
                q = prefix + '<lambda@%d>' % ch.lineno
                out.append((q, ch, parents))
                walk(ch, q + '.', parents + [ch])
            else:
                walk(ch, prefix, parents)
    walk(tree, '', [])
    return out


def own_nodes(fn):
    """AST nodes of fn's own body, not descending into nested defs/lambdas/classes"""
    stack = list(fn.body) if isinstance(fn.body, list) else [fn.body]
    while stack:
        n = stack.pop()
        yield n
        for ch in ast.iter_child_nodes(n):
            if isinstance(ch, (ast.FunctionDef, ast.AsyncFunctionDef, ast.Lambda, ast.ClassDef)):
                continue
            stack.append(ch)


def call_name(node):
    f = node.func
    if isinstance(f, ast.Attribute):
        return f.attr
    if isinstance(f, ast.Name):
        return f.id
    return None


def writes_precision(fn, helpers):
    """syntactic: does the function's own body (incl. nested defs it may call) contain a
    precision write, a helper call or a precision manager?"""
    for n in ast.walk(fn):
        if isinstance(n, ast.Attribute) and isinstance(n.ctx, (ast.Store, ast.Del)) and \
                n.attr in PREC_ATTRS + RAW_ATTRS:
            return True
        if isinstance(n, ast.Subscript) and isinstance(n.ctx, ast.Store):
            b = n.value
            if isinstance(b, ast.Attribute) and b.attr in ('_prec_rounding', '_prec'):
                return True
        if isinstance(n, ast.Call):
            cn = call_name(n)
            if cn in helpers:
                return True
        if isinstance(n, ast.With):
            for it in n.items:
                ce = it.context_expr
                if isinstance(ce, ast.Call) and call_name(ce) in MANAGERS:
                    return True
    return False


class PFEngine(Engine):
    def __init__(self, conf, fname):
        Engine.__init__(self, safety=False, tolerant=True, feas_rlimit=100000, axioms_fn=None)
        self.conf = conf
        self.fname = fname
        self.helpers = conf['helpers']
        self.arbitrary = conf.get('arbitrary_callees', {}).get(fname, ())
        self.in_handlers = set()
        self.events = []
        self.P0 = None
        self.yield_obligs = []
        self.prune_spec = False
        self.havoc_loops = set()
        self.inv_failed = set()

    # ---------------------------------------------------------------- precision cell
    def getP(self, st):
        return st.heap['P']

    def setP(self, st, term):
        st.heap['P'] = simp(term)

    def merge_key(self, st):
        """states are merged when they agree on the precision cell and on every integer-valued
        local (those may hold a saved precision)"""
        items = [st.heap['P'].get_id()]
        for k in sorted(st.env):
            v = st.env[k]
            if isinstance(v, IntV) and not z3.is_int_value(v.t):
                items.append((k, v.t.get_id()))
        return tuple(items)

    def dirty(self, st):
        return st.heap['P'].get_id() != self.P0.get_id()

    def on_getattr(self, p, base, attr):
        if attr in ('prec', '_prec') and not isinstance(base, ConstV):
            return IntV(self.getP(p.st))
        if attr in ('dps', '_dps') and not isinstance(base, ConstV):
            return IntV(p2d_f(self.getP(p.st)))
        return None

    def on_setattr(self, px, target, v, st, frame, lineno):
        if target.attr in ('prec', '_prec'):
            t = int_term(v)
            if t is None:
                self.setP(st, fresh_int('P_unknown'))
            elif target.attr == 'prec':
                self.setP(st, z3.If(t >= 1, t, z3.IntVal(1)))
            else:
                self.setP(st, t)
            st.trace.append('L%s:prec:=' % lineno)
            return True
        if target.attr in ('dps', '_dps'):
            t = int_term(v)
            if target.attr == '_dps':
                return True
            self.setP(st, d2p_f(t) if t is not None else fresh_int('P_unknown'))
            st.trace.append('L%s:dps:=' % lineno)
            return True
        if isinstance(target.value, ast.Name):
            st.heap[('attr', target.value.id, target.attr)] = v
            return True
        return False

    def on_attr_node(self, p, node):
        # fields stored on a plain name (self.origp = ...) are remembered per path
        if isinstance(node.value, ast.Name):
            key = ('attr', node.value.id, node.attr)
            if key in p.st.heap:
                return p.st.heap[key]
        return None

    def on_setitem(self, px, target, v, st, frame, lineno):
        b = target.value
        if isinstance(b, ast.Attribute) and b.attr in ('_prec_rounding', '_prec'):
            p = px.pure(st, frame, lineno)
            idx = p.ev(target.slice)
            if int_term(idx) is not None and z3.is_int_value(simp(int_term(idx))) and \
                    simp(int_term(idx)).as_long() == 0:
                t = int_term(v)
                self.setP(st, t if t is not None else fresh_int('P_unknown'))
                st.trace.append('L%s:prec_cell:=' % lineno)
            return True
        return False

    # ---------------------------------------------------------------- calls
    def on_unknown_call(self, px, fv, st, frame, guard, node, name):
        cn = call_name(node) if isinstance(node, ast.Call) else None
        if cn in self.helpers or cn in self.arbitrary:
            self.setP(st, fresh_int('P_after_%s' % cn))
            st.trace.append('L%s:havoc-by-%s' % (getattr(node, 'lineno', 0), cn))
        if cn in self.conf.get('int_results', ()):
            yield st, IntV(fresh_int('int_%s' % cn))
            return
        yield st, UnkV('result of %s' % name)

    # ---------------------------------------------------------------- exceptional edges
    def pre_stmt(self, px, s, st, frame):
        if isinstance(s, (ast.Pass, ast.Break, ast.Continue, ast.Global, ast.Nonlocal, ast.FunctionDef,
                          ast.ClassDef, ast.Import, ast.ImportFrom, ast.Try, ast.With, ast.If,
                          ast.While, ast.For)):
            # compound statements: their parts are visited individually; the test of if/while
            # is treated below through may_raise on the header expression
            if isinstance(s, (ast.If, ast.While)) and may_raise_expr(s.test):
                pass
            elif isinstance(s, ast.For) and may_raise_expr(s.iter):
                pass
            else:
                return
        elif not may_raise_stmt(s):
            return
        if self.dirty(st) or id(s) in self.in_handlers:
            s2 = st.fork()
            s2.trace.append('L%s:raises' % s.lineno)
            yield s2, RAISE, ExcV('UnknownException', 'exception at line %s' % s.lineno)

    def on_with(self, px, s, st, frame):
        """`with ctx.workprec(n)` etc.: PrecisionManager.__enter__/__exit__ (proved separately)
        save the precision, change it, and restore it on every exit."""
        it = s.items[0] if len(s.items) == 1 else None
        ce = it.context_expr if it is not None else None
        if not (isinstance(ce, ast.Call) and call_name(ce) in MANAGERS):
            yield from generic_with(px, s, st, frame)
            return
        saved = self.getP(st)
        for st1, v in px.eval(ce, st, frame):
            if isinstance(v, ExcV):
                yield st1, RAISE, v
                continue
            self.setP(st1, fresh_int('P_in_with'))
            st1.trace.append('L%s:with-%s' % (s.lineno, call_name(ce)))
            if it.optional_vars is not None:
                px.assign(it.optional_vars, UnkV('with target'), st1, frame, s.lineno)
            for st2, sig, val in px.block(s.body, st1, frame):
                self.setP(st2, saved)
                yield st2, sig, val

    def on_loop_havoc(self, px, s, st, frame):
        """precision at a loop head: first candidate invariant "unchanged since loop entry";
        loops whose back edge refutes it are re-analysed with the precision havocked there"""
        if id(s) in self.havoc_loops:
            self.setP(st, fresh_int('P_loop'))
            st.trace.append('L%s:loop-havoc-P' % s.lineno)
        st.heap[('loopP', id(s))] = st.heap['P']

    def on_loop_back(self, px, s, st, frame):
        head = st.heap.get(('loopP', id(s)))
        if head is None or id(s) in self.havoc_loops:
            return
        cur = st.heap['P']
        if cur.get_id() == head.get_id():
            return
        status, info = solve(st.pc, cur == head, rlimit=1000000, use_cvc5=False, max_refine=0)
        if status != 'proved':
            self.inv_failed.add(id(s))


def generic_with(px, s, st, frame):
    items = list(s.items)

    def go(i, st0):
        if i >= len(items):
            yield from px.block(s.body, st0, frame)
            return
        for st1, v in px.eval(items[i].context_expr, st0, frame):
            if isinstance(v, ExcV):
                yield st1, RAISE, v
                continue
            if items[i].optional_vars is not None:
                px.assign(items[i].optional_vars, UnkV('with target'), st1, frame, s.lineno)
            yield from go(i + 1, st1)
    yield from go(0, st)


def body_restores_syntactically(loop):
    return False


def name_chain(t):
    """a.b.c  (attribute chain rooted at a plain name) or a plain name"""
    while isinstance(t, ast.Attribute):
        t = t.value
    return isinstance(t, ast.Name)


def may_raise_expr(e):
    if name_chain(e):
        return False
    for n in ast.walk(e):
        if isinstance(n, (ast.Call, ast.BinOp, ast.Subscript, ast.Compare, ast.UnaryOp, ast.Attribute,
                          ast.Await, ast.Yield, ast.YieldFrom)):
            if isinstance(n, ast.Attribute) and name_chain(n):
                continue       # plain name.attr.attr read: treated as non-raising
            if isinstance(n, ast.Compare) and all(isinstance(o, (ast.Is, ast.IsNot)) for o in n.ops):
                continue
            if isinstance(n, ast.UnaryOp) and isinstance(n.op, ast.Not):
                continue
            return True
    return False


def may_raise_stmt(s):
    if isinstance(s, ast.Raise):
        return False        # handled as an explicit raise
    if isinstance(s, (ast.Assign, ast.AugAssign, ast.AnnAssign)):
        v = s.value
        if v is None:
            return False
        tgt_simple = all(name_chain(t) for t in (s.targets if isinstance(s, ast.Assign) else [s.target]))
        if isinstance(s, ast.AugAssign):
            # ctx.prec += 10 : int arithmetic on names/constants does not raise
            return not (tgt_simple and not may_raise_expr(v))
        return not tgt_simple or may_raise_expr(v)
    if isinstance(s, ast.Return):
        return s.value is not None and may_raise_expr(s.value)
    if isinstance(s, ast.Expr):
        return not isinstance(s.value, ast.Constant)
    if isinstance(s, ast.Assert):
        return True
    if isinstance(s, ast.Delete):
        return True
    return True


def handler_stmt_ids(fn):
    """ids of statements lexically inside a try body that has except handlers"""
    out = set()

    def visit(stmts, inside):
        for s in stmts:
            if inside:
                out.add(id(s))
            if isinstance(s, ast.Try):
                visit(s.body, inside or bool(s.handlers))
                for h in s.handlers:
                    visit(h.body, inside)
                visit(s.orelse, inside)
                visit(s.finalbody, inside)
            elif isinstance(s, (ast.If, ast.While, ast.For)):
                visit(s.body, inside)
                visit(s.orelse, inside)
            elif isinstance(s, ast.With):
                visit(s.body, inside)
    body = fn.body if isinstance(fn.body, list) else []
    visit(body, False)
    return out


def analyze_function(qual, fn, conf, glob=None, max_paths=4000):
    """returns dict(status=proved|violated|unknown|skipped, obligations=[...])"""
    import sys
    if sys.getrecursionlimit() < 15000:
        sys.setrecursionlimit(15000)
    havoc_loops = set()
    for _round in range(6):
        res = analyze_once(qual, fn, conf, glob, max_paths, havoc_loops)
        failed = res.pop('_inv_failed')
        if not failed:
            break
        havoc_loops |= failed
    res['loops_havocked'] = len(havoc_loops)
    return res


def analyze_once(qual, fn, conf, glob, max_paths, havoc_loops):
    eng = PFEngine(conf, qual)
    eng.havoc_loops = set(havoc_loops)
    px = PathExec(eng)
    # statement-level exceptional edges
    orig_stmt = px.stmt

    def stmt(s, st, frame):
        for out in eng.pre_stmt(px, s, st, frame):
            yield out
        yield from orig_stmt(s, st, frame)
    px.stmt = stmt
    eng.in_handlers = handler_stmt_ids(fn)
    st = State()
    P0 = z3.Int('P0')
    eng.P0 = P0
    st.heap['P'] = P0
    st.assume(P0 >= 1)
    args = fn.args
    for a in args.posonlyargs + args.args + args.kwonlyargs:
        st.env[a.arg] = UnkV('param %s' % a.arg)
    if args.vararg:
        st.env[args.vararg.arg] = UnkV('varargs')
    if args.kwarg:
        st.env[args.kwarg.arg] = UnkV('kwargs')
    frame = Frame(glob or {}, None, None)
    res = {'function': qual, 'line': fn.lineno, 'obligations': [], 'paths': 0}
    body = fn.body if isinstance(fn.body, list) else [ast.Return(value=fn.body, lineno=fn.lineno, col_offset=0)]
    n = 0
    t0 = time.time()
    try:
        for st2, sig, val in px.block(body, st, frame):
            n += 1
            if n > max_paths:
                res['status'] = 'unknown'
                res['reason'] = 'path budget exceeded'
                res['_inv_failed'] = set()
                return res
            kind = 'raise' if sig == RAISE else 'return'
            Pe = st2.heap['P']
            rec = {'exit': kind, 'trace': st2.trace[-14:], 'line': last_line(st2)}
            if Pe.get_id() == P0.get_id():
                rec['status'] = 'proved'
                rec['how'] = 'syntactic'
            else:
                status, info = solve(st2.pc, Pe == P0, rlimit=2000000, use_cvc5=False, max_refine=0)
                rec['status'] = 'proved' if status == 'proved' else ('violated' if status == 'sat' else 'unknown')
                rec['how'] = 'z3'
                rec['P_exit'] = str(Pe)[:160]
                if status == 'sat':
                    m = info['model']
                    rec['model'] = {'P0': str(m.eval(P0, model_completion=True)),
                                    'P_exit': str(m.eval(Pe, model_completion=True))}
            res['obligations'].append(rec)
    except (RecursionError, ctypes.ArgumentError):
        res['status'] = 'unknown'
        res['reason'] = 'recursion limit'
        res['_inv_failed'] = set()
        return res
    res['paths'] = n
    res['wall_s'] = round(time.time() - t0, 3)
    sts = [o['status'] for o in res['obligations']]
    res['status'] = 'violated' if 'violated' in sts else ('unknown' if 'unknown' in sts else 'proved')
    res['_inv_failed'] = set(eng.inv_failed)
    return res


def last_line(st):
    for t in reversed(st.trace):
        if t.startswith('L'):
            try:
                return int(t[1:].split(':')[0])
            except ValueError:
                pass
    return 0


def module_files(repo):
    root = os.path.join(repo, 'mpmath')
    out = []
    for d, dirs, files in os.walk(root):
        if 'tests' in d.split(os.sep):
            continue
        for f in sorted(files):
            if f.endswith('.py') and f != 'function_docs.py':
                out.append(os.path.join(d, f))
    return sorted(out)


def decorated_with(fn, names):
    for d in getattr(fn, 'decorator_list', []):
        n = d
        if isinstance(n, ast.Call):
            n = n.func
        if isinstance(n, ast.Attribute) and n.attr in names:
            return True
        if isinstance(n, ast.Name) and n.id in names:
            return True
    return False


def manager_pair_function(tree, clsname='PrecisionManager'):
    """synthetic function for the context-manager protocol of `clsname`:
         <__enter__ body>; try: __arbitrary_body__() finally: <__exit__ body>
    built from the real method bodies; it must preserve the precision for an arbitrary body."""
    cls = [n for n in ast.walk(tree) if isinstance(n, ast.ClassDef) and n.name == clsname]
    if not cls:
        return None
    meths = {n.name: n for n in cls[0].body if isinstance(n, ast.FunctionDef)}
    if '__enter__' not in meths or '__exit__' not in meths:
        return None
    import copy
    ent = copy.deepcopy(meths['__enter__'])
    ext = copy.deepcopy(meths['__exit__'])
    call = ast.Expr(value=ast.Call(func=ast.Name(id='__arbitrary_body__', ctx=ast.Load()), args=[], keywords=[]))
    ex_body = [s for s in ext.body if not isinstance(s, ast.Return)]
    tr = ast.Try(body=[call], handlers=[], orelse=[], finalbody=ex_body)
    fn = ast.FunctionDef(name='__with_protocol__', args=ext.args, body=ent.body + [tr], decorator_list=[],
                         returns=None, type_comment=None)
    fn.lineno = ent.lineno
    fn.col_offset = 0
    ast.fix_missing_locations(fn)
    for n in ast.walk(fn):
        if not hasattr(n, 'lineno'):
            n.lineno = ent.lineno
    return fn

"""Bounded stand-in checks with exact oracles (never counted as proved): C07, C08, C09, C25, C39.
Each function returns (evaluations, distinct_nontrivial, failures, samples, rule)."""
import itertools
import math
import random
from fractions import Fraction

RND5 = ('n', 'f', 'c', 'u', 'd')


def val(x):
    s, m, e, b = x
    v = Fraction(m) * Fraction(2) ** e
    return -v if s else v


def round_exact(q, prec, rnd):
    """correctly rounded prec-bit value (as a Fraction) of the rational q, mode rnd"""
    if q == 0:
        return Fraction(0)
    sign = -1 if q < 0 else 1
    a = abs(q)
    # binade: 2**(k-1) <= a < 2**k
    k = a.numerator.bit_length() - a.denominator.bit_length()
    if Fraction(2) ** k <= a:
        k += 1
    if Fraction(2) ** (k - 1) > a:
        k -= 1
    u = Fraction(2) ** (k - prec)
    z = a / u
    fl = z.numerator // z.denominator
    exact = (z == fl)
    if exact:
        r = fl
    elif rnd == 'd' or (rnd == 'f' and sign > 0) or (rnd == 'c' and sign < 0):
        r = fl
    elif rnd == 'u' or (rnd == 'f' and sign < 0) or (rnd == 'c' and sign > 0):
        r = fl + 1
    else:
        d = z - fl
        if d > Fraction(1, 2) or (d == Fraction(1, 2) and fl % 2 == 1):
            r = fl + 1
        else:
            r = fl
    return sign * r * u


# ------------------------------------------------------------------------------------------ C07
def c07(seed, tier):
    import mpmath.libmp as L
    rng = random.Random(seed)
    lits = []
    digs = ['1', '9', '12', '105', '999', '123456789', '0.1', '0.5', '2.5', '.75', '3.14159', '1e10', '1e-10', '7e22', '9.5e-5',
            '1.25e3', '123456789e78', '5e-324', '1.7976931348623157e308', '0.30000000000000004', '8.5', '1e100', '1e-100',
            '4.35', '2.675', '1.005', '33333333333333333333333', '0.000000000000000000001', '1/3', '22/7', '-5/8', '1e400',
            '123456789e780', '7e-633', '1e-401', '9.999999e450', '12345e-500']
    for d in digs:
        lits.append(d)
        if not d.startswith('-'):
            lits.append('-' + d)
    for _ in range(60 if tier == 'quick' else 600):
        nd = rng.choice((1, 2, 5, 17, 18, 40))
        m = ''.join(rng.choice('0123456789') for _ in range(nd)).lstrip('0') or '1'
        pt = rng.randrange(0, len(m) + 1)
        s = (m[:pt] or '0') + '.' + m[pt:] if rng.random() < 0.6 else m
        if rng.random() < 0.5:
            s += 'e%d' % rng.choice((-310, -100, -30, -3, 0, 5, 22, 99, 300))
        lits.append(s)
    precs = (1, 5, 24, 53, 64, 113) if tier == 'quick' else (1, 2, 5, 10, 24, 53, 64, 100, 113, 200)
    # 16/17-digit decimal neighbours of midpoints between adjacent p-bit numbers (double rounding through a
    # 53-bit float shows only there): midpoint (2k+1)/2**(p+1) scaled, printed with 17 significant digits,
    # and the two decimal neighbours in the last place
    from decimal import Decimal, getcontext
    getcontext().prec = 60
    for p_ in (5, 24, 30, 40, 52):
        for _ in range(6 if tier == 'quick' else 40):
            k = rng.getrandbits(p_ - 1) | (1 << (p_ - 1))
            for e in (-p_, -p_ + 7, 3):
                mid = Fraction(2 * k + 1, 2) * Fraction(2) ** e
                d = Decimal(mid.numerator) / Decimal(mid.denominator)
                for digits in (16, 17, 18):
                    q = d.quantize(Decimal(1).scaleb(d.adjusted() - digits + 1))
                    for delta in (-1, 0, 1):
                        lits.append(str(q + Decimal(delta).scaleb(q.as_tuple().exponent)))
    precs = tuple(sorted(set(precs) | {24, 30, 40, 52}))
    n = 0
    fails = []
    samples = []
    for lit in lits:
        try:
            exact = Fraction(lit)
        except (ValueError, ZeroDivisionError):
            continue
        for prec in precs:
            for rnd in RND5:
                try:
                    r = L.from_str(lit, prec, rnd)
                except Exception as e:
                    fails.append({'lit': lit, 'prec': prec, 'rnd': rnd, 'observed': 'raised %r' % e})
                    continue
                n += 1
                v = val(r) if r[1] else Fraction(0)
                # directed side for every literal
                bad = None
                if rnd == 'f' and v > exact:
                    bad = 'floor result above the exact value'
                elif rnd == 'c' and v < exact:
                    bad = 'ceiling result below the exact value'
                elif rnd == 'd' and abs(v) > abs(exact):
                    bad = 'round-down result larger in magnitude than the exact value'
                elif rnd == 'u' and abs(v) < abs(exact):
                    bad = 'round-up result smaller in magnitude than the exact value'
                # correct rounding inside 1e-100 .. 1e100
                if bad is None and exact != 0 and Fraction(10) ** -100 <= abs(exact) <= Fraction(10) ** 100:
                    want = round_exact(exact, prec, rnd)
                    if v != want:
                        bad = 'not correctly rounded (got %s, want %s)' % (float(v), float(want))
                if bad:
                    fails.append({'lit': lit, 'prec': prec, 'rnd': rnd, 'observed': bad})
        if len(samples) < 3:
            samples.append({'literal': lit})
    return n, n, fails, samples, 'decimal literals: a fixed list of boundary literals (ties, long digit strings, p/q, huge and tiny exponents) plus %d seeded random literals x precisions %s x 5 modes; oracle Fraction(literal) and exact correct rounding' % (60 if tier == 'quick' else 600, list(precs))


# ------------------------------------------------------------------------------------------ C08
def c08(seed, tier):
    import mpmath
    from mpmath import mp, mpf
    rng = random.Random(seed)
    n = 0
    fails = []
    samples = []
    precs = (53, 24, 100) if tier == 'quick' else (53, 24, 10, 64, 100, 333)
    mtop = 1 << (9 if tier == 'quick' else 12)
    exps = (-60, -20, -5, -1, 0, 1, 3, 10, 40, 100)
    try:
        for prec in precs:
            mp.prec = prec
            for man in list(range(1, mtop, 2)) + [rng.getrandbits(prec) | 1 | (1 << (prec - 1)) for _ in range(40)]:
                if man.bit_length() > prec:
                    continue
                for e in exps:
                    for sg in (1, -1):
                        x = mp.ldexp(mpf(man), e) * sg
                        n += 1
                        s = repr(x)
                        y = eval(s, {'mpf': mpf})
                        if y != x:
                            fails.append({'x': (man, e, sg), 'prec': prec, 'observed': 'eval(repr(x)) != x: %s' % s})
                        for nd in (1, 3, 8):
                            t = mp.nstr(x, nd)
                            try:
                                q = Fraction(t)
                            except ValueError:
                                fails.append({'x': (man, e, sg), 'prec': prec, 'observed': 'nstr gives unparsable %r' % t})
                                continue
                            ex = Fraction(man) * Fraction(2) ** e * sg
                            # unit of the nd-th significant digit of the exact value
                            a = abs(ex)
                            k = len(str(a.numerator // a.denominator)) if a >= 1 else -len(str(a.denominator // a.numerator)) + 1
                            unit = Fraction(10) ** (k - nd)
                            while a >= Fraction(10) ** k:
                                k += 1
                                unit *= 10
                            while a < Fraction(10) ** (k - 1):
                                k -= 1
                                unit /= 10
                            if abs(q - ex) > unit / 2 and abs(q - ex) > unit * 5:      # off by more than half a unit (allow carry digit count change)
                                fails.append({'x': (man, e, sg), 'prec': prec, 'observed': 'nstr(x, %d) = %s is not a nearest %d-digit decimal' % (nd, t, nd)})
                            elif abs(q - ex) > unit / 2:
                                fails.append({'x': (man, e, sg), 'prec': prec, 'n': nd, 'observed': 'nstr(x, %d) = %s is off by more than half a unit in the last digit' % (nd, t)})
                if len(fails) > 20:
                    break
            if len(samples) < 3:
                samples.append({'prec': prec, 'example': repr(mp.ldexp(mpf(3), -5))})
        # values a hair above / below a decimal midpoint, carried at high precision
        mp.prec = 300
        for digits, nd in ((Fraction(15, 100), 1), (Fraction(25, 100), 1), (Fraction(1235, 1000), 3), (Fraction(995, 1000), 2)):
            for eps in (Fraction(1, 1 << 280), -Fraction(1, 1 << 280)):
                q = digits + eps
                x = mpf(q.numerator) / q.denominator
                ex = Fraction(*mpmath.libmp.to_rational(x._mpf_))
                t = mp.nstr(x, nd)
                n += 1
                unit = Fraction(10) ** (len(str(ex.numerator // ex.denominator)) - nd if ex >= 1 else -nd)
                if abs(Fraction(t) - ex) > unit / 2:
                    fails.append({'x': 'about %s %s 2**-280' % (digits, '+' if eps > 0 else '-'), 'prec': 300, 'n': nd,
                                  'observed': 'nstr(x, %d) = %s is not a nearest %d-digit decimal' % (nd, t, nd), 'class': 'midpoint'})
    finally:
        mp.prec = 53
    return n, n, fails, samples, 'all odd mantissas below %d plus 40 seeded full-width mantissas x exponents %s x both signs x precisions %s; oracle: exact rationals' % (mtop, list(exps), list(precs))


# ------------------------------------------------------------------------------------------ C09
def c09(seed, tier):
    import struct
    import mpmath.libmp as L
    rng = random.Random(seed)
    n = 0
    fails = []
    floats = [0.0, 1.0, -1.0, 0.1, 1e308, 1.7976931348623157e308, 2.2250738585072014e-308, 5e-324, 1e-310,
              float('inf'), float('-inf'), 3.5, 2.0 ** 52 + 1, 2.0 ** 53, 0.30000000000000004]
    for _ in range(2000 if tier == 'quick' else 40000):
        bits = rng.getrandbits(64)
        f = struct.unpack('<d', struct.pack('<Q', bits))[0]
        if f == f:
            floats.append(f)
    for f in floats:
        n += 1
        r = L.from_float(f, 53)
        if f in (float('inf'), float('-inf')):
            if r != (L.finf if f > 0 else L.fninf):
                fails.append({'f': repr(f), 'observed': 'from_float gives %r' % (r,)})
            continue
        if (val(r) if r[1] else Fraction(0)) != Fraction(f):
            fails.append({'f': repr(f), 'observed': 'from_float(f) is not exactly f'})
    # to_float: nearest double (ties to even) in the normal range, inf beyond
    xs = []
    for _ in range(3000 if tier == 'quick' else 40000):
        bc = rng.choice((1, 20, 53, 54, 55, 60, 107, 200))
        man = rng.getrandbits(bc) | 1 | (1 << (bc - 1))
        e = rng.choice((-1100, -1022 - bc + 1, -600, -60, -5, 0, 7, 500, 1023 - bc + 1, 1024 - bc, 1030))
        xs.append((rng.getrandbits(1), man, e, man.bit_length()))
    # exact ties
    for k in (1, 5, 30):
        man = ((1 << 52) + k) * 2 + 1
        xs.append((0, man, -10, man.bit_length()))
    # 53-bit head, a half-ulp bit, a long run of zeros and a final sticky bit (total length far beyond 128 bits):
    # the value is just above a tie and must round up whatever the parity of the head
    for L_ in (70, 76, 100, 130, 200, 500, 2000):
        for head in ((1 << 52) + 2 * rng.getrandbits(40), (1 << 52) + 2 * rng.getrandbits(40) + 1, (1 << 53) - 2):
            man = (head << L_) | (1 << (L_ - 1)) | 1
            for e in (-L_ - 30, 0, 200):
                for sg in (0, 1):
                    xs.append((sg, man, e, man.bit_length()))
            man2 = (head << L_) | ((1 << (L_ - 1)) - 1)            # just below the tie: rounds down
            xs.append((0, man2, -L_, man2.bit_length()))
    for x in xs:
        n += 1
        q = val(x)
        try:
            want = float(q)           # CPython: correctly rounded, ties to even; OverflowError beyond the range
        except OverflowError:
            want = float('inf') if q > 0 else float('-inf')
        got = L.to_float(x, rnd='n')
        if abs(q) < Fraction(2) ** -1022:
            continue                  # subnormal range is excluded by the property
        if got != want:
            fails.append({'x': x, 'observed': 'to_float gives %r, nearest double is %r' % (got, want)})
    return n, n, fails, [{'float': repr(floats[3])}, {'mpf': repr(xs[0])}], 'from_float on %d doubles (boundary values + seeded random bit patterns) and to_float on %d seeded mantissa/exponent combinations incl. ties; oracle Fraction / float(Fraction)' % (len(floats), len(xs))


# ------------------------------------------------------------------------------------------ C25
def c25(seed, tier):
    import mpmath
    from mpmath import mp
    n = 0
    fails = []

    def chk(name, args, got, want):
        nonlocal n
        n += 1
        try:
            g = Fraction(int(got)) if isinstance(got, int) else Fraction(*mpmath.libmp.to_rational(got._mpf_))
        except Exception as e:
            fails.append({'fn': name, 'args': args, 'observed': 'unconvertible %r' % (got,)})
            return
        w = Fraction(want)
        if g == w:
            return
        if w != 0 and w.numerator.bit_length() - w.denominator.bit_length() > mp.prec - 2 and abs(g - w) <= abs(w) * Fraction(2) ** (1 - mp.prec):
            return      # does not fit: within one ulp
        fails.append({'fn': name, 'args': args, 'observed': 'got %s want %s' % (got, want)})
    top = 60 if tier == 'quick' else 200
    mp.prec = 53
    try:
        fibs = [0, 1]
        for i in range(2, 400):
            fibs.append(fibs[-1] + fibs[-2])
        for k in range(0, top):
            chk('factorial', k, mp.factorial(k), math.factorial(k))
            chk('fac2', k, mp.fac2(k), math.prod(range(k, 0, -2)) if k > 0 else 1)
            chk('fib', k, mp.fib(k), fibs[k])
            chk('fib', -k, mp.fib(-k), (-1) ** (k + 1) * fibs[k])
            for j in range(0, min(k, 25) + 1):
                chk('binomial', (k, j), mp.binomial(k, j), math.comb(k, j))
                chk('rf', (k, j), mp.rf(k, j), math.prod(range(k, k + j)))
                chk('ff', (k, j), mp.ff(k, j), math.prod(range(k - j + 1, k + 1)) if j <= k else 0)
        # stirling numbers by recurrence
        S1 = {(0, 0): 1}
        S2 = {(0, 0): 1}
        N = 25 if tier == 'quick' else 45
        for a in range(1, N):
            for b in range(0, a + 1):
                S1[a, b] = S1.get((a - 1, b - 1), 0) - (a - 1) * S1.get((a - 1, b), 0)
                S2[a, b] = S2.get((a - 1, b - 1), 0) + b * S2.get((a - 1, b), 0)
        for (a, b), v in S1.items():
            chk('stirling1', (a, b), mp.stirling1(a, b, exact=True), v)
            chk('stirling2', (a, b), mp.stirling2(a, b, exact=True), S2[a, b])
        for a in range(0, N):
            chk('bell', a, mp.bell(a), sum(S2.get((a, b), 0) for b in range(a + 1)))
        # bernoulli / bernfrac by the Akiyama-Tanigawa recurrence
        B = []
        for m in range(0, 60 if tier == 'quick' else 120):
            A = [Fraction(1, j + 1) for j in range(m + 1)]
            for j in range(m, 0, -1):
                for i in range(j - 1, m):
                    pass
            B.append(None)
        bern = [Fraction(1)]
        for m in range(1, 40 if tier == 'quick' else 90):
            s = Fraction(0)
            for k in range(m):
                s += math.comb(m + 1, k) * bern[k]
            bern.append(-s / (m + 1))
        for m, b in enumerate(bern):
            p, q = mp.bernfrac(m)
            n += 1
            bb = b if m != 1 else Fraction(-1, 2)
            if Fraction(p, q) != bb or math.gcd(p, q) != 1 or q <= 0:
                fails.append({'fn': 'bernfrac', 'args': m, 'observed': 'got %s/%s want %s' % (p, q, bb)})
        # euler numbers: E_n via recurrence sum_{k even} C(n,k) E_k = 0
        E = {0: 1}
        for m in range(2, 40 if tier == 'quick' else 80, 2):
            E[m] = -sum(math.comb(m, k) * E[k] for k in range(0, m, 2))
        for m in range(0, max(E) + 1):
            chk('eulernum', m, mp.eulernum(m, exact=True), E.get(m, 0))
        # primes
        lim = 20000 if tier == 'quick' else 400000
        sieve = bytearray([1]) * (lim + 1)
        sieve[0] = sieve[1] = 0
        for i in range(2, int(lim ** 0.5) + 1):
            if sieve[i]:
                sieve[i * i::i] = bytearray(len(sieve[i * i::i]))
        cnt = 0
        for i in range(0, lim + 1):
            cnt += sieve[i]
            if i % 7 == 0 or i < 2000:
                n += 1
                if bool(mp.isprime(i)) != bool(sieve[i]):
                    fails.append({'fn': 'isprime', 'args': i, 'observed': 'got %s' % mp.isprime(i)})
            if i % 997 == 0:
                chk('primepi', i, mp.primepi(i), cnt)
        # psi_k: smallest strong pseudoprimes to the first k prime bases (the switch points of deterministic
        # Miller-Rabin), other classical pseudoprimes, and Carmichael numbers
        for i in (2047, 1373653, 25326001, 3215031751, 2152302898747, 3474749660383, 341550071728321,
                  3277, 9080191, 4759123141, 1122004669633, 4335207541, 561, 41041, 825265, 321197185, 5394826801,
                  232250619601, 9746347772161, 118901521, 3825123056546413051 if tier != 'quick' else 4759123141):
            n += 1
            if mp.isprime(i):
                fails.append({'fn': 'isprime', 'args': i, 'observed': 'strong pseudoprime reported prime'})

        def mob(k):
            r = 1
            p = 2
            while p * p <= k:
                if k % p == 0:
                    k //= p
                    if k % p == 0:
                        return 0
                    r = -r
                p += 1
            if k > 1:
                r = -r
            return r
        for i in range(1, 3000 if tier == 'quick' else 30000):
            chk('moebius', i, mp.moebius(i), mob(i))
        for nn in range(1, 40):
            for x in (-2, -1, 0, 1, 2, 3):
                w = 1
                # cyclotomic via x^n - 1 = prod_{d|n} Phi_d(x): compute exactly with polynomials
            pass
    finally:
        mp.prec = 53
    return n, n, fails, [{'fn': 'factorial', 'n': 20}, {'fn': 'stirling2', 'args': (10, 3)}], 'integer arguments up to %d (factorial, fac2, fib, binomial, rf, ff), Stirling/Bell/Bernoulli/Euler numbers by exact recurrences, isprime/primepi against a sieve up to %d plus the known strong-pseudoprime switch points, moebius by trial division' % (top, lim)


# ------------------------------------------------------------------------------------------ C39
def c39(seed, tier):
    import mpmath
    from mpmath import mp, mpf, mpc
    rng = random.Random(seed)
    n = 0
    fails = []
    xs = []
    for man in list(range(1, 64, 2)) + [rng.getrandbits(60) | 1 for _ in range(30)] + [(1 << 80) + 1, (1 << 53) - 1]:
        for e in (-70, -3, -1, 0, 1, 5, 64):
            for sg in (1, -1):
                xs.append(sg * Fraction(man) * Fraction(2) ** e)
    xs += [Fraction(1, 2), Fraction(3, 2), Fraction(5, 2), Fraction(-7, 2), Fraction(1 << 20) + Fraction(1, 2)]
    mp.prec = 200
    try:
        for q in xs:
            x = mpf(q.numerator) / q.denominator        # exact (dyadic, 200 bits)
            if Fraction(*mpmath.libmp.to_rational(x._mpf_)) != q:
                continue
            n += 1
            m = mp.mag(x)
            a = abs(q)
            opt = a.numerator.bit_length() - a.denominator.bit_length()
            if Fraction(2) ** opt <= a:
                opt += 1                                  # smallest m with |x| < 2**m  (|x| <= 2**m allows m = opt-1 only for powers of two)
            if not (a <= Fraction(2) ** m and m <= opt + 2):
                fails.append({'fn': 'mag', 'x': str(q), 'observed': 'mag = %s, optimal %s' % (m, opt)})
            nn, d = mp.nint_distance(x)
            r = round(q)                                  # Python: ties to even, exact on Fractions
            if abs(q - nn) > Fraction(1, 2) or (abs(q - nn) == Fraction(1, 2) and False):
                fails.append({'fn': 'nint_distance', 'x': str(q), 'observed': 'n = %s is not a nearest integer' % nn})
            dist = abs(q - nn)
            if dist == 0:
                if d != mp.ninf:
                    fails.append({'fn': 'nint_distance', 'x': str(q), 'observed': 'd = %s for an integer' % d})
            else:
                dd = dist.numerator.bit_length() - dist.denominator.bit_length()
                if not (dd - 1 <= d <= dd + 2):
                    fails.append({'fn': 'nint_distance', 'x': str(q), 'observed': 'd = %s, log2|x-n| about %s' % (d, dd)})
            if mp.isint(x) != (q.denominator == 1):
                fails.append({'fn': 'isint', 'x': str(q), 'observed': str(mp.isint(x))})
            y, e2 = mp.frexp(x)
            if not (Fraction(1, 2) <= abs(Fraction(*mpmath.libmp.to_rational(y._mpf_))) < 1) or \
                    Fraction(*mpmath.libmp.to_rational(y._mpf_)) * Fraction(2) ** e2 != q:
                fails.append({'fn': 'frexp', 'x': str(q), 'observed': '(%s, %s)' % (y, e2)})
            if Fraction(*mpmath.libmp.to_rational(mp.ldexp(x, 7)._mpf_)) != q * 128:
                fails.append({'fn': 'ldexp', 'x': str(q), 'observed': 'not exact'})
        for v, want in ((mp.inf, (False, True, False, False)), (mp.nan, (False, False, True, False)),
                        (mpf(0), (True, False, False, False)), (mpf(3), (True, False, False, True))):
            n += 1
            got = (mp.isfinite(v), mp.isinf(v), mp.isnan(v), mp.isnormal(v))
            if got != want:
                fails.append({'fn': 'classification', 'x': str(v), 'observed': str(got)})
        # complex magnitudes: |z| <= 2**m and m at most 2 above the optimal exponent (exact on a**2 + b**2)
        parts = [q for q in xs if abs(q) < 2 ** 30 and abs(q) > Fraction(1, 2 ** 30)][::3] + \
                [Fraction(99, 100).limit_denominator(128), Fraction(127, 128), Fraction(1, 5).limit_denominator(64), Fraction(255, 256), Fraction(3, 16)]
        for a in parts[::2]:
            for b in parts[1::3]:
                za, zb = mpf(a.numerator) / a.denominator, mpf(b.numerator) / b.denominator
                qa, qb = Fraction(*mpmath.libmp.to_rational(za._mpf_)), Fraction(*mpmath.libmp.to_rational(zb._mpf_))
                n += 1
                m = mp.mag(mpc(za, zb))
                sq = qa * qa + qb * qb
                m0 = (sq.numerator.bit_length() - sq.denominator.bit_length()) // 2 - 2
                while Fraction(4) ** m0 < sq:
                    m0 += 1
                if not (sq <= Fraction(4) ** m and m <= m0 + 2):
                    fails.append({'fn': 'mag', 'x': '%s + %s i' % (qa, qb), 'observed': 'mag = %s, optimal %s (|z|^2 = %s)' % (m, m0, float(sq)), 'class': 'mag-complex'})
        n += 1
        if mp.mag(mpf(0)) != mp.ninf or mp.mag(mp.inf) != mp.inf:
            fails.append({'fn': 'mag', 'x': '0/inf', 'observed': 'wrong special value'})
    finally:
        mp.prec = 53
    return n, n, fails, [{'x': str(xs[5])}], 'dyadic rationals: odd mantissas < 64, 30 seeded 60-bit mantissas, long mantissas x 7 exponents x both signs, half-integers; oracle exact Fractions'


CHECKS = {'C07': c07, 'C08': c08, 'C09': c09, 'C25': c25, 'C39': c39}


# ------------------------------------------------------------------------------------------ C29 (polyroots part)
def c29(seed, tier):
    """polyroots on real polynomials built from chosen roots: exactly deg roots, every root close to a chosen one,
    real roots first, complex roots as adjacent conjugate pairs"""
    from mpmath import mp, mpf, mpc
    rng = random.Random(seed)
    n = 0
    fails = []
    sets = [
        [1, 2, 3], [-2, 0.5, 7, 11], [(0, 1)], [(0, 1), (0, 2)], [(1, 1), (1, 3)], [(2, 1), (2, 2), (2, 5)],
        [3, (0, 1), (0, 2)], [-1, 4, (1, 2), (1, 0.5)], [(1, 1), (3, 1)], [(-2, 3), (5, 3)], [1, (1, 1), (-1, 1), (0, 2)],
        [(0, 1), (0, 2), (0, 3), (0, 4)], [2, -3, (0.5, 0.25), (0.5, 4)],
    ]
    for _ in range(6 if tier == 'quick' else 60):
        k = rng.randrange(1, 4)
        re_ = rng.choice((-2, 0, 1, 3))
        sets.append([x + 0.5 for x in rng.sample(range(-5, 6), rng.randrange(0, 3))]        # distinct simple real roots
                    + [(re_ if rng.random() < 0.6 else rng.randrange(-4, 5), j + 1 + rng.random()) for j in range(k)])
    try:
        for prec in (53, 100):
            mp.prec = prec
            for rs in sets:
                roots = []
                for r in rs:
                    if isinstance(r, tuple):
                        roots += [mpc(r[0], r[1]), mpc(r[0], -r[1])]
                    else:
                        roots.append(mpf(r))
                coeffs = [mpf(1)]
                for r in roots:                       # multiply by (x - r); conjugate pairs keep the coefficients real
                    coeffs = [a - r * b for a, b in zip(coeffs + [0], [0] + coeffs)]
                coeffs = [mp.re(c) for c in coeffs]
                n += 1
                try:
                    got = mp.polyroots(coeffs, maxsteps=200, extraprec=prec + 40)
                except Exception as e:
                    fails.append({'fn': 'polyroots', 'roots': str(rs), 'prec': prec, 'observed': 'raised %r' % e, 'class': 'polyroots'})
                    continue
                desc = None
                if len(got) != len(roots):
                    desc = 'returned %d roots for degree %d' % (len(got), len(roots))
                else:
                    tol = mpf(2) ** (-prec // 2)
                    for g in got:
                        if min(abs(g - r) for r in roots) > tol:
                            desc = 'returned %s, not near any root' % g
                    nreal = sum(1 for r in rs if not isinstance(r, tuple))
                    head, tail = got[:nreal], got[nreal:]
                    if desc is None and any(abs(mp.im(g)) > tol for g in head):
                        desc = 'a complex root is listed among the first %d (real) positions: %s' % (nreal, [mp.nstr(g, 8) for g in got])
                    if desc is None:
                        for i in range(0, len(tail), 2):
                            if abs(tail[i + 1] - mp.conj(tail[i])) > tol:
                                desc = 'complex roots are not adjacent conjugate pairs: %s' % [mp.nstr(g, 8) for g in got]
                                break
                if desc:
                    cls = 'polyroots'
                    ims = sorted(abs(r[1]) for r in rs if isinstance(r, tuple))
                    if any(abs(a - b) < 1e-9 for a, b in zip(ims, ims[1:])):
                        cls = 'polyroots order with two pairs of equal |imaginary part|'
                    fails.append({'fn': 'polyroots', 'roots': str(rs), 'prec': prec, 'observed': desc, 'class': cls})
    finally:
        mp.prec = 53
    return n, n, fails, [{'roots': str(sets[4])}], ('%d real polynomials built from chosen real roots and conjugate pairs (pairs sharing a real part, '
                                                   'pairs sharing |imaginary part|, purely imaginary pairs, mixtures) x precisions 53, 100: number of '
                                                   'roots, closeness, real roots first, adjacent conjugate pairs' % len(sets))


CHECKS['C29'] = c29


# ------------------------------------------------------------------------------------------ C35 (pslq acceptance, bounded)
def c35(seed, tier):
    """whatever pslq returns is a non-zero integer vector below maxcoeff with |c.x| <= tol*||x||_2 (checked exactly on the
    rational values of the mpf inputs); planted small relations are found at scales 2**-20 .. 2**40"""
    import mpmath
    from mpmath import mp, mpf
    rng = random.Random(seed)
    n = 0
    fails = []
    try:
        for prec in (53, 100) if tier == 'quick' else (40, 53, 100, 200):
            mp.prec = prec
            consts = [mp.pi, mp.e, mp.euler, mp.sqrt(2), mp.ln2, mp.catalan]
            vecs = []
            for sc in (-40, -20, -5, 0, 7, 40):
                f = mpf(2) ** sc
                vecs.append(([mp.pi * f, mp.e * f], None))
                vecs.append(([mp.pi * f, mp.e * f, mp.euler * f], None))
                vecs.append(([mp.sqrt(2) * f, mp.sqrt(3) * f, mp.sqrt(5) * f], None))
                if sc >= -20:
                    a, b = consts[rng.randrange(6)], consts[rng.randrange(6)]
                    vecs.append(([a * f, b * f, (3 * a - 7 * b) * f], 'planted'))
                    vecs.append(([mpf(1) * f, mp.sqrt(2) * f, (5 + 2 * mp.sqrt(2)) * f], 'planted'))
            for x, kind in vecs:
                for tol in (None, mpf(2) ** -20, mpf(2) ** (-prec // 2)):
                    n += 1
                    kw = {} if tol is None else {'tol': tol}
                    try:
                        c = mp.pslq(x, maxcoeff=1000, maxsteps=10000, **kw)
                    except Exception as e:
                        fails.append({'fn': 'pslq', 'x': str([mp.nstr(v, 8) for v in x]), 'prec': prec, 'observed': 'raised %r' % e})
                        continue
                    if c is None:
                        if kind == 'planted' and tol is None:
                            fails.append({'fn': 'pslq', 'x': str([mp.nstr(v, 8) for v in x]), 'prec': prec, 'observed': 'planted relation not found'})
                        continue
                    xs = [Fraction(*mpmath.libmp.to_rational(v._mpf_)) for v in x]
                    t = Fraction(*mpmath.libmp.to_rational((tol if tol is not None else mp.eps ** 0.75)._mpf_)) if True else None
                    dot = abs(sum(ci * xi for ci, xi in zip(c, xs)))
                    nrm2 = sum(xi * xi for xi in xs)
                    ok = (all(isinstance(ci, int) for ci in c) and any(c) and max(abs(ci) for ci in c) < 1000
                          and dot * dot <= t * t * nrm2 * 4)          # factor 2 of slack on the bound
                    if not ok:
                        fails.append({'fn': 'pslq', 'x': str([mp.nstr(v, 8) for v in x]), 'prec': prec,
                                      'observed': 'returned %s with |c.x| = %.3g, tol*||x|| = %.3g' % (c, float(dot), float(t) * float(nrm2) ** 0.5)})
    finally:
        mp.prec = 53
    return n, n, fails, [{'x': '[pi, e] * 2**-40'}], ('vectors of classical constants with and without planted relations at scales 2**-40 .. 2**40, '
                                                    'three tolerances, precisions 53 / 100: every returned vector is checked exactly against tol*||x||_2')


CHECKS['C35'] = c35

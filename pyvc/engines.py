"""Additional engines (precision-frame analysis, bounded stand-ins ...).  Each returns
  dict(obligations=int, discharged=int, records=[(key, rec, unit)], violations=[(key, rec, path, suffix)],
       undecided=[(key, why)], known_hits=[(finding, key, rec)], errors=[...], samples=[...],
       assumptions=[...], functions=[...], coverage={...})
"""
import ast
import json
import multiprocessing as mp
import os
import sys
import time

HERE = os.path.dirname(os.path.dirname(os.path.abspath(__file__)))
REPO = os.environ.get('PYVC_REPO', '/repo')


# ======================================================================================= precframe

def _pf_file(job):
    path, conf_extra_helpers = job
    import threading
    out = {}

    def work():
        from pyvc import precframe as PF
        from contracts.precframe_conf import CONF
        conf = dict(CONF)
        conf['helpers'] = set(CONF['helpers']) | set(conf_extra_helpers)
        mod = os.path.relpath(path, os.path.join(REPO, 'mpmath'))[:-3].replace('/', '.')
        tree = ast.parse(open(path).read())
        funcs = []
        for q, fn, parents in PF.iter_functions(tree):
            qual = mod + '.' + q
            info = {'qual': qual, 'line': fn.lineno, 'name': getattr(fn, 'name', '<lambda>'),
                    'nested': bool(parents), 'method': _is_method(tree, fn),
                    'decorators': [_dec_name(d) for d in getattr(fn, 'decorator_list', [])]}
            if not PF.writes_precision(fn, conf['helpers']):
                info['class'] = 'frame-trivial'
                funcs.append(info)
                continue
            if qual in conf['setters']:
                info['class'] = 'setter'
                funcs.append(info)
                continue
            if info['name'] in conf['helpers'] and info['name'] != '<lambda>':
                info['class'] = 'helper'
                funcs.append(info)
                continue
            if 'defun_wrapped' in info['decorators'] or (
                    parents and 'defun_wrapped' in [_dec_name(d) for d in getattr(parents[0], 'decorator_list', [])]):
                # body (and its nested helpers/callbacks) runs only inside f_wrapped's try/finally
                info['class'] = 'wrapped'
                funcs.append(info)
                continue
            r = PF.analyze_function(qual, fn, conf)
            info['class'] = 'analysed'
            info['status'] = r['status']
            info['reason'] = r.get('reason')
            info['paths'] = r.get('paths')
            info['exits'] = len(r['obligations'])
            bad = [o for o in r['obligations'] if o['status'] != 'proved']
            info['bad'] = bad[:3]
            info['sample'] = r['obligations'][:1]
            funcs.append(info)
        if mod == 'ctx_mp':
            pair = PF.manager_pair_function(tree)
            if pair is not None:
                qual = 'ctx_mp.PrecisionManager.<with-protocol __enter__;body;__exit__>'
                conf2 = dict(conf)
                conf2['arbitrary_callees'] = dict(conf.get('arbitrary_callees', {}))
                conf2['arbitrary_callees'][qual] = ('__arbitrary_body__',)
                r = PF.analyze_function(qual, pair, conf2)
                bad = [o for o in r['obligations'] if o['status'] != 'proved']
                funcs.append({'qual': qual, 'line': pair.lineno, 'name': '__with_protocol__', 'nested': False,
                              'method': 'PrecisionManager', 'decorators': [], 'class': 'analysed',
                              'status': r['status'], 'reason': r.get('reason'), 'paths': r.get('paths'),
                              'exits': len(r['obligations']), 'bad': bad[:3], 'sample': r['obligations'][:1]})
        out['funcs'] = funcs
    threading.stack_size(512 * 1024 * 1024)
    t = threading.Thread(target=work)
    t.start()
    t.join()
    return out.get('funcs', [{'qual': path, 'class': 'crash'}])


def _dec_name(d):
    if isinstance(d, ast.Call):
        d = d.func
    if isinstance(d, ast.Attribute):
        return d.attr
    if isinstance(d, ast.Name):
        return d.id
    return '?'


def _is_method(tree, fn):
    for n in ast.walk(tree):
        if isinstance(n, ast.ClassDef) and fn in n.body:
            return n.name
    return None


def is_public(info, exported):
    """public API per the property: context methods (defun*), methods of classes that are
    not underscore-private (dunder methods count as public), exported module-level functions"""
    name = info['name']
    if info['nested']:
        return False
    private = name.startswith('_') and not (name.startswith('__') and name.endswith('__'))
    if any(d in ('defun', 'defun_wrapped', 'defun_static') for d in info['decorators']):
        return not private
    if info['method']:
        return not private and not info['method'].startswith('_')
    return name in exported


def run_precframe(prop, tier, seed, known, lock):
    t0 = time.time()
    os.environ.setdefault('MPMATH_NOGMPY', '1')
    for p in (REPO, HERE):
        if p not in sys.path:
            sys.path.insert(0, p)
    from pyvc import precframe as PF
    from contracts.precframe_conf import CONF
    import mpmath
    exported = set(dir(mpmath))
    files = [f for f in PF.module_files(REPO) if '/libmp/' not in f]
    derived = set()
    rounds = []
    ctx = mp.get_context('fork')
    result = None
    for rnd in range(5):
        with ctx.Pool(min(16, len(files))) as pool:
            res = pool.map(_pf_file, [(f, sorted(derived)) for f in files], chunksize=1)
        funcs = [x for r in res for x in r]
        new = set()
        for f in funcs:
            if f.get('class') == 'analysed' and f['status'] != 'proved' and not is_public(f, exported):
                if f['name'] != '<lambda>' and f['name'] not in CONF['helpers'] and f['name'] not in derived \
                        and not f['nested']:
                    new.add(f['name'])
        rounds.append(sorted(new))
        result = funcs
        if not new:
            break
        derived |= new
    funcs = result
    out = {'obligations': 0, 'discharged': 0, 'records': [], 'violations': [], 'undecided': [],
           'known_hits': [], 'errors': [], 'samples': [], 'functions': [], 'assumptions': [
               'precframe: user-supplied callbacks leave the precision unchanged (they may raise)',
               'precframe: a function touches one context only (every X.prec / X.dps denotes the same cell)',
               'precframe: non-public functions that do not preserve the precision are treated as helpers: every caller sees the precision havocked after the call (derived helpers: %s)' % ', '.join(sorted(derived)),
               'precframe: bodies of @defun_wrapped functions run only inside _wrap_specfun.f_wrapped, which is proved to restore the precision around an arbitrary body',
               'precframe: mag(), int(), len(), max(), min() return Python ints',
           ], 'coverage': {}}
    from pyvc.check import write_replay, finding_matches
    counts = {}
    for f in funcs:
        cls = f.get('class')
        counts[cls] = counts.get(cls, 0) + 1
        if cls == 'crash':
            out['errors'].append('precframe crashed on %s' % f['qual'])
            continue
        key = 'precframe|%s' % f['qual']
        if cls == 'frame-trivial':
            # frame rule: no precision write, no helper call, no manager: preserves given callees preserve
            rec = {'name': key, 'kind': 'frame', 'clause': 'preserves', 'status': 'proved', 'solver': 'syntactic'}
            out['records'].append((key, rec, {'target': f['qual'], 'enum': {}}))
            continue
        if cls in ('setter', 'helper', 'wrapped'):
            continue
        rec = {'name': key, 'kind': 'precframe', 'clause': 'preserves', 'line': f['line'],
               'status': 'proved' if f['status'] == 'proved' else ('sat' if f['status'] == 'violated' else 'unknown'),
               'solver': 'z3', 'trace': (f.get('bad') or f.get('sample') or [{}])[0].get('trace'),
               'reason': f.get('reason'), 'exits': f.get('exits'), 'paths': f.get('paths')}
        unit = {'target': f['qual'], 'enum': {}, 'file': None}
        if f['status'] == 'proved':
            out['records'].append((key, rec, unit))
            out['functions'].append(f['qual'])
            if len(out['samples']) < 4:
                out['samples'].append({'obligation': key, 'exits_checked': f.get('exits'), 'paths': f.get('paths'),
                                       'status': 'proved'})
            continue
        if not is_public(f, exported) and not f['nested']:
            continue        # became a derived helper; its callers carry the obligation
        if f['nested']:
            cb = CONF.get('callback_helpers', {})
            hit = [k for k in cb if f['qual'].startswith(k)]
            if hit:
                continue    # nested callback run only by a consumer proved robust against arbitrary callbacks
        out['records'].append((key, rec, unit))
        bad = (f.get('bad') or [{}])[0]
        rec['replay'] = {'status': 'static-path', 'observed': 'exit %s at line %s with precision %s' % (
            bad.get('exit'), bad.get('line'), bad.get('P_exit'))}
        kf = [k for k in known.get('findings', []) if finding_matches(k, prop, key, rec)]
        if kf:
            out['known_hits'].append((kf[0], key, rec))
        elif f['status'] == 'violated' or key in lock:
            rec['engine'] = 'precframe'
            path = write_replay(prop, unit, rec, 'precision not restored on the recorded path (static path; dynamic replay by fault injection: ./vcheck --replay)')
            _patch_replay(path, f)
            dyn = replay_subprocess(path if os.path.isabs(path) else os.path.join(HERE, path))
            out['violations'].append((key, rec, path, '' if dyn == 1 else ' no-failing-input-found'))
        else:
            out['undecided'].append((key, 'precframe %s (%s)' % (f['status'], f.get('reason'))))
    n_an = sum(1 for k, r, u in out['records'])
    out['obligations'] = n_an
    out['discharged'] = sum(1 for k, r, u in out['records'] if r['status'] == 'proved')
    out['coverage'] = {'functions_total': len(funcs), 'classes': counts, 'derived_helpers': sorted(derived),
                       'fixpoint_rounds': len(rounds), 'wall_s': round(time.time() - t0, 1)}
    return out


def _patch_replay(path, f):
    p = path if os.path.isabs(path) else os.path.join(HERE, path)
    with open(p) as fh:
        d = json.load(fh)
    d['engine'] = 'precframe'
    d['bad_exits'] = f.get('bad')
    with open(p, 'w') as fh:
        json.dump(d, fh, indent=1, default=repr)


def replay_subprocess(path, timeout=120):
    """dynamic replay in a child process (a replay must never hang or kill the check)"""
    import subprocess
    try:
        r = subprocess.run([sys.executable, '-m', 'pyvc.check', '--replay', path], cwd=HERE,
                           capture_output=True, text=True, timeout=timeout,
                           env=dict(os.environ, MPMATH_NOGMPY='1'))
        return r.returncode
    except subprocess.TimeoutExpired:
        return 2


def replay_precframe_file(path, quiet=False):
    with open(path) as f:
        d = json.load(f)
    return replay_precframe(d, quiet)


def replay_precframe(d, quiet=False):
    """dynamic replay by fault injection: call the public function through a driver from
    contracts/precframe_drivers.py with a callee forced to raise, and compare mp.prec"""
    os.environ.setdefault('MPMATH_NOGMPY', '1')
    for p in (REPO, HERE):
        if p not in sys.path:
            sys.path.insert(0, p)
    try:
        from contracts import precframe_drivers as D
    except Exception:
        return 2
    fn = d.get('function', '')
    drv = D.DRIVERS.get(fn.split('.')[-1])
    if drv is None:
        for k in D.DRIVERS:
            if k in fn:
                drv = D.DRIVERS[k]
                break
    if drv is None:
        if not quiet:
            print('no dynamic driver for %s; static path: %s' % (fn, d.get('bad_exits')))
        return 2
    import mpmath
    bad = 0
    for scenario in drv:
        for prec0 in (53, 101):
            mpmath.mp.prec = prec0
            import signal

            def _alarm(sig, frm):
                raise TimeoutError('replay scenario timed out')
            try:
                signal.signal(signal.SIGALRM, _alarm)
                signal.alarm(20)
            except Exception:
                pass
            try:
                scenario(mpmath.mp)
            except BaseException:
                pass
            finally:
                try:
                    signal.alarm(0)
                except Exception:
                    pass
            after = mpmath.mp.prec
            mpmath.mp.prec = 53
            if mpmath.iv.prec != 53:
                after = ('iv', mpmath.iv.prec)
                mpmath.iv.prec = 53
            if after != prec0:
                bad += 1
                if not quiet:
                    print('precision %s -> %s after %s' % (prec0, after, getattr(scenario, '__doc__', scenario)))
                    print('VIOLATION property=%s replay=%s' % (d.get('property'), d.get('obligation')))
                return 1
    if bad:
        if not quiet:
            print('VIOLATION property=%s replay=%s' % (d.get('property'), d.get('obligation')))
        return 1
    return 0


# ======================================================================================= dispatch

def run(name, prop, tier, seed, known, lock):
    if name == 'precframe':
        return run_precframe(prop, tier, seed, known, lock)
    if name == 'refine':
        return run_refine(prop, tier, seed, known, lock)
    if name == 'speclemmas':
        return run_speclemmas(prop, tier, seed, known, lock)
    if name == 'ivbounded':
        return run_ivbounded(prop, tier, seed, known, lock)
    if name == 'guards':
        return run_guards(prop, tier, seed, known, lock)
    if name == 'cachekeys':
        return run_cachekeys(prop, tier, seed, known, lock)
    if name == 'boundedprops':
        return run_boundedprops(prop, tier, seed, known, lock)
    if name == 'ownership':
        return run_ownership(prop, tier, seed, known, lock)
    raise KeyError(name)


def replay(d):
    if d.get('engine') == 'precframe':
        return replay_precframe(d)
    if d.get('engine') == 'boundedprops':
        r = run_boundedprops(d.get('property'), 'quick', 0, {'findings': []}, {})
        for v in r['violations']:
            if v[0] == d.get('obligation'):
                print('bounded check still fails:', v[1]['model_args'], v[1]['replay']['observed'])
                print('VIOLATION property=%s replay=%s' % (d.get('property'), d.get('obligation')))
                return 1
        return 0
    if d.get('engine') == 'cachekeys':
        r = run_cachekeys(d.get('property'), 'quick', 0, {'findings': []}, {})
        for v in r['violations']:
            if v[0] == d.get('obligation'):
                print('cache contract still violated:', v[1]['replay']['observed'])
                print('VIOLATION property=%s replay=%s no-failing-input-found' % (d.get('property'), d.get('obligation')))
                return 1
        return 0
    if d.get('engine') == 'guards':
        r = run_guards(d.get('property'), 'quick', 0, {'findings': []}, {})
        for v in r['violations']:
            if v[0] == d.get('obligation') or v[1].get('name') == d.get('obligation'):
                print('contract still violated:', v[1]['replay'])
                print('VIOLATION property=%s replay=%s' % (d.get('property'), d.get('obligation')))
                return 1
        return 0
    if d.get('engine') == 'ivbounded':
        r = run_ivbounded(d.get('property', 'C14'), 'quick', 0, {'findings': []}, {})
        for v in r['violations']:
            print('containment fails:', v[1]['model_args'], v[1]['replay']['observed'])
            print('VIOLATION property=%s replay=%s' % (d.get('property'), d.get('obligation')))
            return 1
        return 0
    if d.get('engine') == 'refine':
        name = d['function'].split('.')[-1]
        found = native_refinement_search(name, d.get('clause', '').endswith('prec'), budget_s=60)
        if found is not None:
            print('refinement contract of %s fails on %r: %s' % (name, found['args'], found['observed']))
            print('VIOLATION property=%s replay=%s' % (d.get('property'), d.get('obligation')))
            return 1
        print('no failing input found for %s (static reason: %s)' % (name, d.get('solver_reason')))
        return 0
    raise KeyError(d.get('engine'))


# ======================================================================================= refinement pass

def _refine_worker(args):
    repo, want_bits = args
    import threading
    out = {}

    def work():
        from pyvc import refine
        out['r'] = refine.run(repo, want_bits)
    threading.stack_size(512 * 1024 * 1024)
    t = threading.Thread(target=work)
    t.start()
    t.join()
    return out.get('r')


def native_refinement_search(name, want_bits, budget_s=20):
    """bounded native search for an input on which libmp.<name> returns a non-canonical raw mpf
    (or one longer than prec): grid of boundary values x precisions x rounding modes"""
    import inspect
    import itertools
    import mpmath.libmp as L
    from pyvc import gens
    fn = None
    for m in ('libmpf', 'libmpc', 'libmpi', 'libelefun', 'libhyper', 'gammazeta'):
        mod = __import__('mpmath.libmp.' + m, fromlist=['x'])
        if hasattr(mod, name):
            fn = getattr(mod, name)
            break
    if fn is None:
        return None
    sig = inspect.signature(fn)
    xs = [(0, 0, 0, 0), (0, 1, 0, 1), (1, 1, 0, 1), (0, 3, -1, 2), (0, 5, -3, 3), (1, 7, 2, 3),
          (0, (1 << 70) + 1, -70, 71), (1, (1 << 70) + 1, -65, 71), (0, (1 << 120) - 1, -118, 120),
          (0, 1, 10, 1), (0, 123456789, -20, 27)]
    if name.startswith(('mpc_', 'mpci_')):
        mk = lambda v: (v, xs[(xs.index(v) + 3) % len(xs)])
    elif name.startswith('mpi_'):
        mk = lambda v: (v, v)
    else:
        mk = lambda v: v
    if name.startswith('mpci_'):
        mk = lambda v: ((v, v), (xs[(xs.index(v) + 3) % len(xs)],) * 2)
    space = []
    names = []
    for pn, p in sig.parameters.items():
        if pn == 'prec':
            space.append((1, 2, 5, 20, 53))
        elif pn in ('rnd', 'rounding'):
            space.append(('n', 'f', 'c', 'u', 'd'))
        elif pn in ('n', 'k', 'm'):
            space.append((0, 1, 2, 3, 5, -1, -2))
        elif p.default is not inspect.Parameter.empty:
            space.append((p.default,))
        else:
            space.append([mk(v) for v in xs])
        names.append(pn)
    t0 = time.time()
    pi = names.index('prec') if 'prec' in names else None
    for combo in itertools.product(*space):
        if time.time() - t0 > budget_s:
            break
        try:
            r = fn(*combo)
        except Exception:
            continue
        prec = combo[pi] if pi is not None else None
        bad = _bad_component(r, prec if want_bits else None)
        if bad is not None:
            return {'args': dict(zip(names, combo)), 'result': r, 'observed': bad}
    return None


def _bad_component(r, prec):
    def raw(v):
        return isinstance(v, tuple) and len(v) == 4 and all(isinstance(x, int) for x in v)
    if raw(r):
        s, m, e, b = r
        if m == 0:
            if r not in ((0, 0, 0, 0), (0, 0, -123, -1), (0, 0, -456, -2), (1, 0, -789, -3)):
                return 'non-canonical special %r' % (r,)
            return None
        if s not in (0, 1) or m < 0 or m % 2 == 0 or b != m.bit_length():
            return 'non-canonical %r' % (r,)
        if prec is not None and b > prec:
            return 'mantissa of %d bits at prec=%d' % (b, prec)
        return None
    if isinstance(r, (tuple, list)):
        for x in r:
            bb = _bad_component(x, prec)
            if bb is not None:
                return bb
    return None


def run_refine(prop, tier, seed, known, lock):
    t0 = time.time()
    os.environ.setdefault('MPMATH_NOGMPY', '1')
    for p in (REPO, HERE):
        if p not in sys.path:
            sys.path.insert(0, p)
    want_bits = (prop == 'C10')
    ctx = mp.get_context('fork')
    with ctx.Pool(1) as pool:
        r = pool.map(_refine_worker, [(REPO, want_bits)])[0]
    from pyvc.check import write_replay, finding_matches
    out = {'obligations': 0, 'discharged': 0, 'records': [], 'violations': [], 'undecided': [],
           'known_hits': [], 'errors': [], 'samples': [], 'functions': [], 'assumptions': [
               'refinement pass: every raw mpf reaching a libmp function through its parameters is canonical (established at the public boundary by the constructors under contract)',
               'refinement pass: unmodelled code is havocked; a function is counted only if every returning path is justified; mutual recursion is resolved coinductively (partial correctness)',
           ], 'coverage': {}}
    if r is None:
        out['errors'].append('refinement pass crashed')
        return out
    clause = 'canonical+bits<=prec' if want_bits else 'canonical'
    for n in r['verified']:
        key = 'refine|%s|%s' % (n, clause)
        rec = {'name': key, 'kind': 'refine', 'clause': clause, 'status': 'proved', 'solver': 'z3',
               'paths': r['paths'].get(n)}
        out['records'].append((key, rec, {'target': 'mpmath.libmp.' + n, 'enum': {}}))
        out['functions'].append('mpmath.libmp.%s (refinement contract)' % n)
        if len(out['samples']) < 4:
            out['samples'].append({'obligation': key, 'paths': r['paths'].get(n), 'status': 'proved'})
    for n, why in r['unverified'].items():
        key = 'refine|%s|%s' % (n, clause)
        rec = {'name': key, 'kind': 'refine', 'clause': clause, 'status': 'unknown', 'reason': '; '.join(why)[:300],
               'line': None}
        unit = {'target': 'mpmath.libmp.' + n, 'enum': {}, 'file': None}
        kf = [k for k in known.get('findings', []) if finding_matches(k, prop, key, rec)]
        if kf:
            out['records'].append((key, rec, unit))
            out['known_hits'].append((kf[0], key, rec))
            continue
        if key in lock:
            out['records'].append((key, rec, unit))
            found = native_refinement_search(n, want_bits)
            rec['engine'] = 'refine'
            if found is not None:
                rec['model_args'] = {k: repr(v) for k, v in found['args'].items()}
                rec['replay'] = {'status': 'reproduced', 'observed': found['observed'], 'result': repr(found['result'])}
                path = write_replay(prop, unit, rec, 'refinement contract of %s no longer holds; bounded native search found a failing input' % n)
                out['violations'].append((key, rec, path, ''))
            else:
                path = write_replay(prop, unit, rec, 'refinement contract of %s was discharged on the committed tree and is not any more: %s' % (n, rec['reason']))
                out['violations'].append((key, rec, path, ' no-failing-input-found'))
        # functions never typed are only listed
    out['obligations'] = len(out['records'])
    out['discharged'] = sum(1 for k, rc, u in out['records'] if rc['status'] == 'proved')
    out['coverage'] = {'verified': len(r['verified']), 'unverified_listed': sorted(r['unverified']),
                       'unverified_reasons': {k: v[:2] for k, v in list(r['unverified'].items())[:60]},
                       'fixpoint_rounds': r['rounds'], 'wall_s': round(time.time() - t0, 1)}
    return out


# ======================================================================================= spec lemmas

def run_speclemmas(prop, tier, seed, known, lock):
    import z3
    for p in (REPO, HERE):
        if p not in sys.path:
            sys.path.insert(0, p)
    from contracts import speclemmas as SL
    out = {'obligations': 0, 'discharged': 0, 'records': [], 'violations': [], 'undecided': [],
           'known_hits': [], 'errors': [], 'samples': [], 'functions': [], 'assumptions': [
               'spec lemmas: the extended real line is order-isomorphic to a closed real interval (only order / field facts about reals are used)'],
           'coverage': {}}
    for fn in SL.LEMMAS.get(prop, []):
        f = fn()
        s = z3.Solver()
        s.set('timeout', 20000)
        s.add(z3.Not(f))
        r = s.check()
        key = 'speclemma|%s' % fn.__name__
        rec = {'name': key, 'kind': 'speclemma', 'clause': fn.__name__, 'status': 'proved' if r == z3.unsat else 'unknown',
               'solver': 'z3', 'reason': str(r)}
        out['records'].append((key, rec, {'target': 'contracts.speclemmas.' + fn.__name__, 'enum': {}}))
        if r != z3.unsat:
            out['undecided'].append((key, 'spec lemma not discharged: %s' % r))
        elif len(out['samples']) < 2:
            out['samples'].append({'obligation': key, 'statement': (fn.__doc__ or '').strip(), 'status': 'proved'})
    out['obligations'] = len(out['records'])
    out['discharged'] = sum(1 for k, rc, u in out['records'] if rc['status'] == 'proved')
    return out


# ======================================================================================= interval containment (bounded)

def run_ivbounded(prop, tier, seed, known, lock):
    """C14 bounded stand-in: exact rational containment check of the real libmpi operations"""
    os.environ.setdefault('MPMATH_NOGMPY', '1')
    for p in (REPO, HERE):
        if p not in sys.path:
            sys.path.insert(0, p)
    from fractions import Fraction
    import mpmath.libmp as L
    from mpmath.libmp import libmpi as I
    finf, fninf, fnan, fzero = L.finf, L.fninf, L.fnan, L.fzero
    INF = float('inf')

    def val(x):
        if x == finf:
            return INF
        if x == fninf:
            return -INF
        if x == fnan:
            return None
        s, m, e, b = x
        v = Fraction(m) * Fraction(2) ** e
        return -v if s else v

    def mk(q):
        if q == INF:
            return finf
        if q == -INF:
            return fninf
        q = Fraction(q)
        r = L.mpf_div(L.from_int(q.numerator), L.from_int(q.denominator), 200, 'n')   # exact for dyadics
        assert val(r) == q, 'endpoint %s is not exactly representable: the harness would test a non-member' % q
        return r

    pts = [-INF, Fraction(-7, 2), Fraction(-1), Fraction(-1, 2), Fraction(-3, 1 << 40), Fraction(0),
           Fraction(1, 1 << 30), Fraction(3, 4), Fraction(1), Fraction(5, 2), Fraction((1 << 70) + 1, 1 << 60),
           Fraction(10 ** 10), INF]
    if tier != 'quick':
        pts += [Fraction(-(1 << 80) - 1, 1 << 81), Fraction(7, 1 << 3), Fraction(123456789, 1 << 20)]
        pts = sorted(set(pts), key=lambda z: (z if z not in (INF, -INF) else (10 ** 30 if z == INF else -10 ** 30)))
    ivs = []
    for i, a in enumerate(pts):
        for b in pts[i:]:
            if a == INF or b == -INF:
                continue
            ivs.append((a, b))

    def members(a, b):
        out = []
        for z in (a, b):
            if z not in (INF, -INF):
                out.append(Fraction(z))
        if a == -INF and b == INF:
            out += [Fraction(0), Fraction(-10 ** 6), Fraction(10 ** 6)]
        elif a == -INF:
            out += [Fraction(b) - 1, Fraction(b) - 10 ** 9]
        elif b == INF:
            out += [Fraction(a) + 1, Fraction(a) + 10 ** 9]
        else:
            out.append((Fraction(a) + Fraction(b)) / 2)
            if a < 0 < b:
                out.append(Fraction(0))
        return out

    precs = (1, 2, 5, 10, 53) if tier == 'quick' else (1, 2, 3, 5, 10, 24, 53, 64)
    n_eval = 0
    distinct = 0
    fails = []
    samples = []

    def inside(r, res):
        lo, hi = val(res[0]), val(res[1])
        if lo is None or hi is None:
            return False
        return lo <= r <= hi

    def check(name, res, exact_vals, args):
        nonlocal n_eval, distinct
        n_eval += 1
        distinct += 1
        for r in exact_vals:
            if not inside(r, res):
                fails.append({'op': name, 'args': args, 'result': (repr(res)), 'point': str(r)})
                return
    binops = {'mpi_add': lambda x, y: x + y, 'mpi_sub': lambda x, y: x - y, 'mpi_mul': lambda x, y: x * y}
    for (a, b) in ivs:
        s = (mk(a), mk(b))
        ms = members(a, b)
        for prec in precs:
            if len(fails) > 5:
                break
            for name, fn in (('mpi_neg', lambda x: -x), ('mpi_abs', lambda x: abs(x)), ('mpi_pos', lambda x: x),
                             ('mpi_square', lambda x: x * x)):
                try:
                    res = getattr(I, name)(s, prec)
                except Exception:
                    continue
                check(name, res, [fn(x) for x in ms], {'s': (str(a), str(b)), 'prec': prec})
            for n in (-3, -2, -1, 0, 1, 2, 3, 4, 5):
                try:
                    res = I.mpi_pow_int(s, n, prec)
                except Exception:
                    continue
                ev = []
                for x in ms:
                    if n < 0 and x == 0:
                        continue
                    ev.append(x ** n)
                if n < 0 and (a <= 0 <= b):
                    continue
                check('mpi_pow_int', res, ev, {'s': (str(a), str(b)), 'n': n, 'prec': prec})
        if len(samples) < 3:
            samples.append({'interval': (str(a), str(b)), 'members_checked': [str(x) for x in ms]})
    step = 1 if tier != 'quick' else 3
    for i, (a, b) in enumerate(ivs):
        s = (mk(a), mk(b))
        ms = members(a, b)
        for j, (c, d) in enumerate(ivs):
            if (i + j) % step:
                continue
            t = (mk(c), mk(d))
            mt = members(c, d)
            for prec in precs[::2] if tier == 'quick' else precs:
                for name, fn in binops.items():
                    try:
                        res = getattr(I, name)(s, t, prec)
                    except Exception:
                        continue
                    check(name, res, [fn(x, y) for x in ms for y in mt], {'s': (str(a), str(b)), 't': (str(c), str(d)), 'prec': prec})
                if not (c <= 0 <= d):
                    try:
                        res = I.mpi_div(s, t, prec)
                    except Exception:
                        continue
                    check('mpi_div', res, [x / y for x in ms for y in mt if y != 0], {'s': (str(a), str(b)), 't': (str(c), str(d)), 'prec': prec})
            if len(fails) > 5:
                break
    from pyvc.check import write_replay, finding_matches
    out = {'obligations': 0, 'discharged': 0, 'records': [], 'violations': [], 'undecided': [],
           'known_hits': [], 'errors': [], 'samples': samples, 'functions': [], 'assumptions': [
               'bounded interval containment: exact rational arithmetic is the oracle; only +, -, *, /, neg, abs, pos, square and integer powers are covered'],
           'coverage': {'evaluations': n_eval, 'distinct_nontrivial': distinct,
                        'rule': 'all intervals with endpoints from a fixed list of %d extended-real values (incl. +-inf, long mantissas) x precisions %s x operations; every call is distinct; checked: endpoint, midpoint and zero members map into the result interval (exact rationals)' % (len(pts), list(precs)),
                        'intervals': len(ivs)}}
    for f in fails[:3]:
        key = 'ivbounded|%s' % f['op']
        rec = {'name': key, 'kind': 'bounded', 'clause': 'containment', 'status': 'sat', 'model_args': f['args'],
               'replay': {'status': 'reproduced', 'observed': 'exact value %s of a member point lies outside the result %s' % (f['point'], f['result'])},
               'engine': 'ivbounded', 'solver': 'native-bounded'}
        unit = {'target': 'mpmath.libmp.libmpi.' + f['op'], 'enum': {}, 'file': None}
        path = write_replay(prop, unit, rec, 'bounded exact-rational containment check failed on the real function')
        out['violations'].append((key, rec, path, ''))
    return out


# ======================================================================================= guarded returns

def run_guards(prop, tier, seed, known, lock):
    for p in (REPO, HERE):
        if p not in sys.path:
            sys.path.insert(0, p)
    import threading
    from pyvc import guards
    from pyvc.check import write_replay, finding_matches
    out = {'obligations': 0, 'discharged': 0, 'records': [], 'violations': [], 'undecided': [],
           'known_hits': [], 'errors': [], 'samples': [], 'functions': [], 'assumptions': [
               'guarded-return contracts: the tested data is not interpreted (user functions f, norm assumed deterministic); only which checks dominate which returns is decided'],
           'coverage': {}}
    res = {}

    def work():
        for sp in guards.SPECS.get(prop, []):
            res[sp['name']] = (sp, guards.analyze_kwargs(REPO, sp) if sp.get('kind') == 'kwargs' else guards.analyze(REPO, sp))
    sys.setrecursionlimit(15000)
    threading.stack_size(512 * 1024 * 1024)
    t = threading.Thread(target=work)
    t.start()
    t.join()
    for name, (sp, r) in res.items():
        key = 'guards|%s.%s' % (sp['file'][:-3].replace('/', '.'), sp['function'])
        rec = {'name': key, 'kind': 'guards', 'clause': name, 'status': 'proved' if r['status'] == 'proved' else
               ('sat' if r['status'] == 'violated' else 'unknown'), 'solver': 'path-enumeration',
               'reason': r.get('reason'), 'paths': r.get('paths'), 'returning_paths': r.get('returning_paths')}
        unit = {'target': key, 'enum': {}, 'file': sp['file']}
        out['records'].append((key, rec, unit))
        out['functions'].append(key)
        if r['status'] == 'proved':
            out['samples'].append({'obligation': name, 'paths': r.get('paths'), 'returning_paths': r.get('returning_paths')})
        elif r['status'] == 'violated':
            rec['replay'] = {'status': 'static-path', 'observed': r['bad'][0]['why'], 'trace': r['bad'][0].get('trace')}
            rec['engine'] = 'guards'
            suffix = ' no-failing-input-found'
            if sp.get('replay'):
                try:
                    import mpmath
                    obs = sp['replay'](mpmath.mp)
                except Exception as ex:
                    obs = None
                if obs:
                    rec['replay'] = {'status': 'reproduced', 'observed': obs, 'static': r['bad'][0]['why']}
                    suffix = ''
            path = write_replay(prop, unit, rec, 'contract violated on a path of the real function: ' + r['bad'][0]['why'])
            out['violations'].append((key, rec, path, suffix))
        else:
            out['undecided'].append((key, 'guarded-return contract: %s (%s)' % (r['status'], r.get('reason'))))
    out['obligations'] = len(out['records'])
    out['discharged'] = sum(1 for k, rc, u in out['records'] if rc['status'] == 'proved')
    return out


# ======================================================================================= cache protocols

def run_cachekeys(prop, tier, seed, known, lock):
    for p in (REPO, HERE):
        if p not in sys.path:
            sys.path.insert(0, p)
    from pyvc import cachekeys as K
    from pyvc.check import write_replay, finding_matches
    out = {'obligations': 0, 'discharged': 0, 'records': [], 'violations': [], 'undecided': [],
           'known_hits': [], 'errors': [], 'samples': [], 'functions': [], 'assumptions': [
               'cache-protocol contracts: dependencies are computed by backward slicing over the assignments of the function (over-approximation); calls are functions of their arguments, their receiver and (outside libmp) the working precision in force',
           ], 'coverage': {}}
    for sp in K.SPECS:
        if sp['kind'] == 'key':
            r = K.check_key_determines(REPO, sp)
        elif sp['kind'] == 'inv':
            r = K.check_invalidation(REPO, sp)
        else:
            r = K.check_same_protocol(REPO, sp)
        key = 'cache|%s' % sp['name'].split(':')[0]
        if sp['kind'] == 'key':
            key += '|' + sp['cache']
        rec = {'name': key, 'kind': 'cache', 'clause': sp['name'], 'status': 'proved' if r['status'] == 'proved' else
               ('sat' if r['status'] == 'violated' else 'unknown'), 'solver': 'dataflow', 'reason': r.get('reason')}
        unit = {'target': key, 'enum': {}, 'file': sp['file']}
        out['records'].append((key, rec, unit))
        out['functions'].append('%s:%s' % (sp['file'], sp.get('function', sp.get('class'))))
        if r['status'] == 'proved':
            if len(out['samples']) < 3:
                out['samples'].append({'obligation': sp['name'], 'status': 'proved'})
        elif r['status'] == 'violated':
            rec['replay'] = {'status': 'static', 'observed': '; '.join(r['bad'])[:500]}
            rec['engine'] = 'cachekeys'
            kf = [k for k in known.get('findings', []) if finding_matches(k, prop, key, rec)]
            if kf:
                out['known_hits'].append((kf[0], key, rec))
            else:
                path = write_replay(prop, unit, rec, 'cache-protocol contract violated: ' + r['bad'][0])
                out['violations'].append((key, rec, path, ' no-failing-input-found'))
        else:
            out['undecided'].append((key, 'cache contract %s (%s)' % (r['status'], r.get('reason'))))
    out['obligations'] = len(out['records'])
    out['discharged'] = sum(1 for k, rc, u in out['records'] if rc['status'] == 'proved')
    return out


# ======================================================================================= bounded property tiers

def run_boundedprops(prop, tier, seed, known, lock):
    os.environ.setdefault('MPMATH_NOGMPY', '1')
    for p in (REPO, HERE):
        if p not in sys.path:
            sys.path.insert(0, p)
    from pyvc import boundedprops as B
    from pyvc.check import write_replay, finding_matches
    out = {'obligations': 0, 'discharged': 0, 'records': [], 'violations': [], 'undecided': [],
           'known_hits': [], 'errors': [], 'samples': [], 'functions': [], 'assumptions': [
               'bounded tier: exact rational / integer arithmetic of CPython (fractions, math) is the oracle; nothing outside the enumerated domain is covered'],
           'coverage': {}}
    checks = dict(B.CHECKS)
    if prop not in checks:
        from pyvc import mpfrprops
        checks.update(mpfrprops.CHECKS)
        out['assumptions'].append('reference values: the system MPFR (libmpfr.so.6, %s) loaded through ctypes is trusted; each value is '
                                  'enclosed by two evaluations at p+80 bits with rounding toward -inf and +inf' % mpfrprops.mpfr_version())
    n, d, fails, samples, rule = checks[prop](seed, tier)
    out['samples'] = samples
    out['coverage'] = {'evaluations': n, 'distinct_nontrivial': d, 'rule': rule}
    seen = set()
    for f in fails:
        cls = f.get('class') or f.get('fn') or 'general'
        key = 'bounded|%s|%s' % (prop, cls)
        if key in seen:
            continue
        seen.add(key)
        rec = {'name': key, 'kind': 'bounded', 'clause': cls, 'status': 'sat', 'model_args': {k: v for k, v in f.items() if k != 'observed'},
               'replay': {'status': 'reproduced', 'observed': f['observed']}, 'engine': 'boundedprops', 'solver': 'native-bounded'}
        unit = {'target': key, 'enum': {}, 'file': None}
        kf = [k for k in known.get('findings', []) if finding_matches(k, prop, key, rec)]
        if kf:
            out['known_hits'].append((kf[0], key, rec))
        else:
            path = write_replay(prop, unit, rec, 'bounded exact-oracle check failed on the real code')
            out['violations'].append((key, rec, path, ''))
    return out


# ======================================================================================= ownership (C38)

def run_ownership(prop, tier, seed, known, lock):
    from pyvc import ownership
    from pyvc.check import write_replay, finding_matches
    out = {'obligations': 0, 'discharged': 0, 'records': [], 'violations': [], 'undecided': [],
           'known_hits': [], 'errors': [], 'samples': [], 'functions': [], 'assumptions': [
               'ownership contracts are syntactic: a store counts by its target expression; stores through getattr/setattr with a '
               'computed name, __dict__ manipulation and C extensions are not seen',
               'the `_mp` delegate of a context (the global mp for fp and iv) may be changed temporarily; its restoration is the C11 contract'],
           'coverage': {}}
    res = ownership.run(REPO)
    nviol = 0
    for q, rel, ln, v in res:
        key = 'ownership|%s' % q
        rec = {'name': key, 'kind': 'ownership', 'clause': 'W1-W4', 'status': 'proved' if not v else 'sat', 'solver': 'syntactic',
               'line': ln}
        unit = {'target': q, 'enum': {}, 'file': rel}
        out['records'].append((key, rec, unit))
        if v:
            nviol += 1
            rec['model_args'] = {'function': q, 'file': rel, 'line': ln}
            rec['replay'] = {'status': 'reproduced', 'observed': '; '.join(v)[:600]}
            kf = [k for k in known.get('findings', []) if finding_matches(k, prop, key, rec)]
            if kf:
                out['known_hits'].append((kf[0], key, rec))
            else:
                path = write_replay(prop, unit, rec, 'ownership contract violated: %s' % '; '.join(v)[:300])
                out['violations'].append((key, rec, path, ''))
    attrs, missing = ownership.clone_completeness(REPO)
    key = 'ownership|clone-completeness'
    rec = {'name': key, 'kind': 'ownership', 'clause': 'W5', 'status': 'proved' if not missing else 'sat', 'solver': 'syntactic', 'line': None}
    unit = {'target': 'mpmath.ctx_mp.MPContext.clone', 'enum': {}, 'file': 'mpmath/ctx_mp.py'}
    out['records'].append((key, rec, unit))
    if missing:
        rec['model_args'] = {'attributes': missing}
        rec['replay'] = {'status': 'reproduced', 'observed': 'mpmath/__init__.py sets mp.%s after construction; MPContext.__init__ does not, so mp.clone() lacks it' % ', mp.'.join(missing)}
        path = write_replay(prop, unit, rec, 'a clone of mp lacks attributes of the global mp: %s' % missing)
        out['violations'].append((key, rec, path, ''))
    out['obligations'] = len(out['records'])
    out['discharged'] = sum(1 for k, rc, u in out['records'] if rc['status'] == 'proved')
    out['samples'] = [{'obligation': 'ownership|mpmath.ctx_mp_python.PythonMPContext._set_prec', 'status': 'proved'}]
    out['coverage'] = {'functions': len(res), 'state_stores_seen': ownership.count_state_stores(REPO),
                       'attributes_set_on_global_mp': attrs}
    out['functions'] = ['every function and method of mpmath outside tests (%d): ownership contract W1-W4' % len(res),
                        'mpmath.ctx_mp.MPContext.clone: completeness W5']
    return out

"""Additional engines (precision-frame analysis, refinement pass, bounded stand-ins)."""


def run(name, prop, tier, seed, known, lock):
    raise KeyError(name)


def replay(d):
    raise KeyError(d.get('engine'))

"""pyvc -- a small deductive verifier for a stated subset of Python.

Verification conditions are generated from the AST of the *real* functions under
/repo (re-read on every run) and sidecar contracts in /verif/contracts, and are
discharged with z3 (cvc5 as second back end).  See /verif/DESIGN.md.
"""

"""Symbolic execution of real Python function bodies against sidecar contracts.

Two evaluators share one operation library:
  * ``Pure``  -- merging evaluator for expressions and for contract/spec functions
                (branches become If-terms; no forking);
  * ``PathExec`` -- path-sensitive forward symbolic executor for the code under
                verification (forks at branches, callee *contracts* at call sites,
                loops through supplied invariants, exceptions as explicit outcomes).
Anything outside the modelled subset is *havocked* (UnkV): proofs that still go through
are valid for the real code; obligations that fail because of havoc are reported
undecided, never as violations (DESIGN.md section 2).
"""
import ast
import os
import sys
import builtins
import inspect
import types

import z3

from .vals import (IntV, BoolV, RealV, TupV, ConstV, UnkV, ObjV, ExcV, FuncV, Val, lift, int_term,
                   is_conc_int, conc_int, fresh_int, fresh_bool, simp, mk_and, mk_or,
                   pow2_f, bitlen_f, ipow_f, and_uf, or_uf, xor_uf, mk_mask, _mask_terms,
                   pow2_term, is_pow2m1, is_single_bit, cfix_f, rval_f, rfun_f, fresh_real, isqrt_f)
from . import contract as C

TRUE = z3.BoolVal(True)
FALSE = z3.BoolVal(False)


class HexV(Val):
    """hex(t) for an integer term t >= 0 (assumed builtin contract: int(hex(m)[2:], 16) == m and
    int(hex(m), 16) == m for every m >= 0); `stripped` = the '0x' prefix was sliced off"""
    __slots__ = ('t', 'stripped')

    def __init__(self, t, stripped=False):
        self.t = t
        self.stripped = stripped


class IteV(Val):
    """choice between two values that cannot be merged into one term"""
    __slots__ = ('c', 'a', 'b')

    def __init__(self, c, a, b):
        self.c, self.a, self.b = c, a, b


class State(object):
    __slots__ = ('env', 'pc', 'heap', 'memo', 'trace', 'calls', 'ghostcount', 'entry', 'pending', 'loop_pre')

    def __init__(self):
        self.env = {}
        self.pc = []
        self.heap = {}
        self.memo = {}
        self.trace = []
        self.calls = {}
        self.ghostcount = {}
        self.entry = {}
        self.pending = []

    def fork(self):
        s = State()
        s.env = dict(self.env)
        s.pc = list(self.pc)
        s.heap = dict(self.heap)
        s.memo = dict(self.memo)
        s.trace = list(self.trace)
        s.calls = dict(self.calls)
        s.ghostcount = dict(self.ghostcount)
        s.entry = self.entry
        s.pending = list(self.pending)
        return s

    def assume(self, f):
        if not z3.is_true(f):
            self.pc.append(f)


class Oblig(object):
    __slots__ = ('name', 'kind', 'pc', 'goal', 'lineno', 'func', 'clause', 'props', 'trace',
                 'inputs', 'extra')

    def __init__(self, **kw):
        for k in self.__slots__:
            setattr(self, k, kw.get(k))


class FuncInfo(object):
    def __init__(self, fn):
        self.fn = fn
        self.node, self.filename = C.func_ast(fn)
        self.globals = fn.__globals__
        self.qualname = fn.__module__ + '.' + fn.__qualname__
        self.sig = inspect.signature(fn)
        self.loop_nodes = [n for n in ast.walk(self.node) if isinstance(n, (ast.While, ast.For))]
        self.loop_nodes.sort(key=lambda n: (n.lineno, n.col_offset))


PURE_BUILTINS = {}


def _reg(obj):
    def d(f):
        PURE_BUILTINS[id(obj)] = f
        return f
    return d


class Engine(object):
    """shared state for one verification unit"""

    def __init__(self, safety=True, tolerant=False, feas_rlimit=200000, axioms_fn=None):
        self.safety = safety
        self.tolerant = tolerant
        self.obligations = []
        self.notes = []
        self.feas_rlimit = feas_rlimit
        self.axioms_fn = axioms_fn
        self.cur = None            # current top-level FuncInfo / contract
        self.cur_contract = None
        self.inline_depth = 0
        self.nfeas = 0
        self.covered_paths = 0

    # ------------------------------------------------------------------ obligations
    def oblig(self, st, kind, clause, goal, lineno, guard=None, props=None, extra=None):
        if guard is not None and not z3.is_true(guard):
            goal = z3.Implies(guard, goal)
        g = simp(goal)
        if z3.is_true(g) and kind != 'ensures':
            return
        # (an ensures clause that simplifies to True is still recorded: the set of obligation
        # keys of a function must not depend on how much the simplifier happens to decide)
        c = self.cur_contract
        self.obligations.append(Oblig(
            name='%s/%s@L%s' % (self.cur.qualname if self.cur else '?', clause, lineno),
            kind=kind, pc=list(st.pc), goal=goal, lineno=lineno,
            func=self.cur.qualname if self.cur else '?', clause=clause,
            props=props, trace=list(st.trace), inputs=st.entry, extra=extra))
        # assert-then-assume
        st.assume(goal)

    def note(self, msg):
        if msg not in self.notes:
            self.notes.append(msg)

    def decide(self, st, cond):
        """True / False if the path condition already determines `cond`, else None.
        Used to prune If-branches of spec functions (sound: the resulting formula is only
        ever used under the same path condition)."""
        c = simp(cond)
        if z3.is_true(c):
            return True
        if z3.is_false(c):
            return False
        if not getattr(self, 'prune_spec', True):
            return None
        key = (hash(tuple(f.get_id() for f in st.pc)), len(st.pc), c.get_id())
        cache = self.__dict__.setdefault('_decide_cache', {})
        if key in cache:
            return cache[key][0]
        q = self.quick_decide(st, c)
        if os.environ.get('PYVC_DECDBG'):
            print('   decide quick=%s pc=%d %s' % (q, len(st.pc), str(c)[:150].replace('\n', ' ')), file=sys.stderr)
        if q is not None:
            cache[key] = (q, c, tuple(st.pc))
            return q
        if not self.feasible(st, z3.Not(c)):
            r = True
        elif not self.feasible(st, c):
            r = False
        else:
            r = None
        # keep the terms alive: z3 recycles AST ids of collected terms
        cache[key] = (r, c, tuple(st.pc))
        return r

    @staticmethod
    def lit_key(l):
        """(polarity, atom key): equalities are keyed symmetrically (z3.simplify does not orient them)"""
        pol = True
        while z3.is_not(l):
            pol = not pol
            l = l.arg(0)
        if z3.is_eq(l):
            a, b = l.arg(0).get_id(), l.arg(1).get_id()
            return pol, ('eq', min(a, b), max(a, b))
        return pol, ('t', l.get_id())

    def pc_units(self, st):
        """literals that occur as top-level conjuncts of the path condition"""
        fc = self.__dict__.setdefault('_units_cache', {})
        out = set()
        for f in st.pc:
            e = fc.get(f.get_id())
            if e is None or not e[0].eq(f):
                lits = []
                todo = [simp(f)]
                while todo:
                    g = todo.pop()
                    if z3.is_and(g):
                        todo.extend(g.children())
                    else:
                        lits.append(g)
                e = (f, lits, [self.lit_key(l) for l in lits])
                fc[f.get_id()] = e
            out.update(e[2])
        return out

    def quick_decide(self, st, c, units=None, depth=0):
        """syntactic unit propagation against the path condition (no solver): True / False / None"""
        if units is None:
            units = self.pc_units(st)
        if z3.is_true(c):
            return True
        if z3.is_false(c):
            return False
        pol, k = self.lit_key(c)
        if (pol, k) in units:
            return True
        if (not pol, k) in units:
            return False
        if depth >= 3:
            return None
        if z3.is_and(c) or z3.is_or(c):
            vals = [self.quick_decide(st, ch, units, depth + 1) for ch in c.children()]
            if z3.is_and(c):
                if any(v is False for v in vals):
                    return False
                if all(v is True for v in vals):
                    return True
            else:
                if any(v is True for v in vals):
                    return True
                if all(v is False for v in vals):
                    return False
        elif z3.is_not(c):
            v = self.quick_decide(st, c.arg(0), units, depth + 1)
            if v is not None:
                return not v
        return None

    def feasible(self, st, cond):
        """is pc /\\ cond satisfiable?  unknown counts as feasible."""
        c = simp(cond)
        if z3.is_true(c):
            return True
        if z3.is_false(c):
            return False
        self.nfeas += 1
        s = z3.Solver()
        s.set('rlimit', self.feas_rlimit)
        s.set('timeout', 3000)      # backstop (non-linear real queries ignore rlimit); unknown counts as feasible
        fs = list(st.pc) + [c]
        if self.axioms_fn is not None:
            fs = fs + self.axioms_fn(fs, light=True)
        s.add(*fs)
        r = s.check()
        if r == z3.unknown:
            self.nfeas_unknown = getattr(self, 'nfeas_unknown', 0) + 1
            if os.environ.get('PYVC_FEASDBG'):
                print('   feasible: unknown (%s) for %s' % (s.reason_unknown(), str(c)[:200].replace('\n', ' ')),
                      file=sys.stderr)
        return r != z3.unsat


# =========================================================================== pure evaluator

class Pure(object):
    """Merging (non-forking) evaluator.  ``env`` maps names to Vals; globals are resolved
    through ``glob`` (a real module dict).  Used for (a) expressions of code under
    verification after calls were hoisted into ``st.calls`` and (b) contract / spec
    functions (then ``spec=True``: user functions are inlined by merging)."""

    def __init__(self, eng, st, env, glob, spec=False, guard=TRUE, lineno=0, closure=None):
        self.eng = eng
        self.st = st
        self.env = env
        self.glob = glob
        self.spec = spec
        self.guard = guard
        self.lineno = lineno
        self.closure = closure

    # -------------------------------------------------------------- helpers
    def sub(self, guard):
        p = Pure(self.eng, self.st, self.env, self.glob, self.spec, guard, self.lineno, self.closure)
        return p

    def safety(self, clause, goal):
        if self.spec or not self.eng.safety:
            return
        ct = self.eng.cur_contract
        if ct is not None and clause in ct.raises and self.eng.inline_depth == 0:
            # an exception the contract declares: not a safety obligation but an exceptional
            # outcome (decided against the contract's raises-clause at the function exit)
            self.st.pending.append((simp(z3.And(self.guard, z3.Not(goal))), clause, self.lineno))
            return
        self.eng.oblig(self.st, 'safety', clause, goal, self.lineno, guard=self.guard)

    def unk(self, why):
        if not self.eng.tolerant:
            self.eng.note('havoc: %s (line %s)' % (why, self.lineno))
        return UnkV(why)

    def lookup(self, name):
        if name in self.env:
            return self.env[name]
        if self.closure is not None and name in self.closure:
            return self.closure[name]
        if name in self.glob:
            return lift(self.glob[name])
        if hasattr(builtins, name):
            return ConstV(getattr(builtins, name))
        return self.unk('unbound name %s' % name)

    # -------------------------------------------------------------- truthiness
    def truthy(self, v):
        if isinstance(v, BoolV):
            return v.t
        if isinstance(v, IntV):
            return v.t != 0
        if isinstance(v, TupV):
            return z3.BoolVal(len(v.items) > 0)
        if isinstance(v, ConstV):
            try:
                return z3.BoolVal(bool(v.obj))
            except Exception:
                return fresh_bool('truthy')
        if isinstance(v, IteV):
            return z3.If(v.c, self.truthy(v.a), self.truthy(v.b))
        if isinstance(v, (FuncV, ObjV)):
            return TRUE
        return fresh_bool('truthy')

    def cond(self, node):
        """truth value of an expression used as a condition: and/or/not are decomposed into
        propositional structure (instead of Python's value semantics followed by a truth test)"""
        if isinstance(node, ast.BoolOp):
            parts = []
            guard = self.guard
            is_and = isinstance(node.op, ast.And)
            for e in node.values:
                t = self.sub(guard).cond(e)
                parts.append(t)
                guard = z3.And(guard, t if is_and else z3.Not(t))
            return mk_and(parts) if is_and else mk_or(parts)
        if isinstance(node, ast.UnaryOp) and isinstance(node.op, ast.Not):
            return z3.Not(self.cond(node.operand))
        return self.truthy(self.ev(node))

    def ite(self, c, a, b):
        c = simp(c)
        if z3.is_true(c):
            return a
        if z3.is_false(c):
            return b
        ta, tb = int_term(a), int_term(b)
        if isinstance(a, BoolV) and isinstance(b, BoolV):
            return BoolV(z3.If(c, a.t, b.t))
        if ta is not None and tb is not None:
            return IntV(z3.If(c, ta, tb))
        if isinstance(a, TupV) and isinstance(b, TupV) and len(a.items) == len(b.items):
            return TupV([self.ite(c, x, y) for x, y in zip(a.items, b.items)], a.kind)
        if isinstance(a, ConstV) and isinstance(b, ConstV):
            try:
                if a.obj is b.obj or a.obj == b.obj:
                    return a
            except Exception:
                pass
        if isinstance(a, UnkV) and isinstance(b, UnkV):
            return UnkV('merge')
        return IteV(c, a, b)

    # -------------------------------------------------------------- expression dispatch
    def ev(self, node):
        m = getattr(self, 'ev_' + type(node).__name__, None)
        if m is None:
            return self.unk('expression %s' % type(node).__name__)
        return m(node)

    def ev_Constant(self, node):
        return lift(node.value)

    def ev_Name(self, node):
        return self.lookup(node.id)

    def ev_Tuple(self, node):
        items = []
        for e in node.elts:
            if isinstance(e, ast.Starred):
                return self.unk('starred')
            items.append(self.ev(e))
        return TupV(items, 'tuple')

    def ev_List(self, node):
        items = []
        for e in node.elts:
            if isinstance(e, ast.Starred):
                return self.unk('starred')
            items.append(self.ev(e))
        return TupV(items, 'list')

    def ev_Dict(self, node):
        keys, vals = [], []
        for k, v in zip(node.keys, node.values):
            if k is None:
                return self.unk('dict **')
            kv = self.ev(k)
            vv = self.ev(v)
            if is_conc_int(kv):
                keys.append(conc_int(kv))
            elif isinstance(kv, ConstV) and isinstance(kv.obj, (str, type(None))):
                keys.append(kv.obj)
            else:
                return self.unk('dict with symbolic key')
            vals.append(vv)
        return ConstV(SymDict(keys, vals))

    def ev_Attribute(self, node):
        h = getattr(self.eng, 'on_attr_node', None)
        if h is not None:
            r = h(self, node)
            if r is not None:
                return r
        base = self.ev(node.value)
        return self.getattr(base, node.attr)

    def getattr(self, base, attr):
        h = getattr(self.eng, 'on_getattr', None)
        if h is not None:
            r = h(self, base, attr)
            if r is not None:
                return r
        if isinstance(base, ConstV):
            try:
                return lift(getattr(base.obj, attr))
            except Exception:
                return self.unk('getattr %s' % attr)
        if isinstance(base, ObjV):
            key = (base.oid, attr)
            if key in self.st.heap:
                return self.st.heap[key]
            return self.unk('field %s' % attr)
        return self.unk('getattr %s on unknown' % attr)

    def ev_IfExp(self, node):
        c = self.cond(node.test)
        if self.spec:
            if self.eng.decide(self.st, z3.Implies(self.guard, c)) is True:
                return self.ev(node.body)
            if self.eng.decide(self.st, z3.Implies(self.guard, z3.Not(c))) is True:
                return self.ev(node.orelse)
        a = self.sub(z3.And(self.guard, c)).ev(node.body)
        b = self.sub(z3.And(self.guard, z3.Not(c))).ev(node.orelse)
        return self.ite(c, a, b)

    def ev_BoolOp(self, node):
        vals = []
        guard = self.guard
        p = self
        is_and = isinstance(node.op, ast.And)
        for e in node.values:
            v = p.ev(e)
            vals.append(v)
            t = self.truthy(v)
            guard = z3.And(guard, t if is_and else z3.Not(t))
            p = self.sub(guard)
        # value semantics: a and b -> b if a else a
        res = vals[-1]
        for v in reversed(vals[:-1]):
            t = self.truthy(v)
            if isinstance(v, BoolV) and isinstance(res, BoolV):
                res = BoolV(z3.And(v.t, res.t) if is_and else z3.Or(v.t, res.t))
            elif is_and:
                res = self.ite(t, res, v)
            else:
                res = self.ite(t, v, res)
        return res

    def ev_UnaryOp(self, node):
        v = self.ev(node.operand)
        if isinstance(node.op, ast.Not):
            return BoolV(z3.Not(self.truthy(v)))
        t = int_term(v)
        if isinstance(v, RealV) and isinstance(node.op, (ast.USub, ast.UAdd)):
            return RealV(-v.t if isinstance(node.op, ast.USub) else v.t)
        if t is None:
            if isinstance(v, ConstV) and isinstance(v.obj, float):
                try:
                    return ConstV(-v.obj if isinstance(node.op, ast.USub) else +v.obj)
                except Exception:
                    pass
            return self.unk('unary op on non-int')
        if isinstance(node.op, ast.USub):
            if z3.is_int_value(t):
                return IntV(-t.as_long())
            return IntV(-t)
        if isinstance(node.op, ast.UAdd):
            return IntV(t)
        if isinstance(node.op, ast.Invert):
            return IntV(-t - 1)
        return self.unk('unary')

    def ev_BinOp(self, node):
        a = self.ev(node.left)
        b = self.ev(node.right)
        return self.binop(node.op, a, b)

    def ev_Compare(self, node):
        left = self.ev(node.left)
        res = []
        for op, rn in zip(node.ops, node.comparators):
            right = self.ev(rn)
            res.append(self.compare(op, left, right))
            left = right
        return BoolV(mk_and(res))

    def ev_Subscript(self, node):
        base = self.ev(node.value)
        sl = node.slice
        if isinstance(sl, ast.Slice):
            lo = self.ev(sl.lower) if sl.lower is not None else None
            hi = self.ev(sl.upper) if sl.upper is not None else None
            st = self.ev(sl.step) if sl.step is not None else None
            return self.slice(base, lo, hi, st)
        idx = self.ev(sl)
        return self.subscript(base, idx)

    def ev_Lambda(self, node):
        return FuncV(node, dict(self.env), '<lambda>')

    def ev_JoinedStr(self, node):
        return self.unk('f-string')

    def ev_Call(self, node):
        key = id(node)
        if key in self.st.calls:
            return self.st.calls[key]
        fv = self.ev(node.func)
        args = []
        for a in node.args:
            if isinstance(a, ast.Starred):
                return self.unk('call with *args')
            args.append(self.ev(a))
        kwargs = {}
        for k in node.keywords:
            if k.arg is None:
                return self.unk('call with **kwargs')
            kwargs[k.arg] = self.ev(k.value)
        return self.call_pure(fv, args, kwargs, node)

    def ev_GeneratorExp(self, node):
        return self.ev_ListComp(node)

    def ev_ListComp(self, node):
        # only:  [expr for x in <known-length tuple/range const>]  without conditions
        if len(node.generators) != 1 or node.generators[0].ifs:
            return self.unk('comprehension')
        g = node.generators[0]
        it = self.ev(g.iter)
        items = self.iter_items(it)
        if items is None or not isinstance(g.target, ast.Name):
            return self.unk('comprehension over unknown iterable')
        out = []
        for x in items:
            env2 = dict(self.env)
            env2[g.target.id] = x
            p = Pure(self.eng, self.st, env2, self.glob, self.spec, self.guard, self.lineno, self.closure)
            out.append(p.ev(node.elt))
        return TupV(out, 'list')

    def iter_items(self, it):
        if isinstance(it, TupV):
            return list(it.items)
        if isinstance(it, ConstV) and isinstance(it.obj, (tuple, list, range)) and len(it.obj) <= 64:
            return [lift(x) for x in it.obj]
        return None

    # -------------------------------------------------------------- calls in pure mode
    def call_pure(self, fv, args, kwargs, node):
        if isinstance(fv, IteV):
            return self.ite(fv.c, self.call_pure(fv.a, args, kwargs, node),
                            self.call_pure(fv.b, args, kwargs, node))
        if isinstance(fv, ConstV):
            f = fv.obj
            h = PURE_BUILTINS.get(id(f))
            if h is not None:
                return h(self, args, kwargs)
            prim = getattr(f, '_pyvc_prim', None)
            if prim is not None:
                return getattr(self, 'prim_' + prim)(*args)
            if self.spec and isinstance(f, types.FunctionType):
                if getattr(f, '_pyvc_native_only', False):
                    return self.unk('native-only spec function %s' % f.__name__)
                return self.inline_spec(f, args, kwargs)
            if isinstance(f, types.FunctionType) and f.__module__ == 'pyvc.spec':
                return self.inline_spec(f, args, kwargs)
        if isinstance(fv, FuncV) and isinstance(fv.node, ast.Lambda) and self.spec:
            return self.inline_lambda(fv, args)
        return self.unk('call of %r' % (fv,))

    def inline_lambda(self, fv, args):
        env = dict(fv.env)
        for a, v in zip(fv.node.args.args, args):
            env[a.arg] = v
        p = Pure(self.eng, self.st, env, self.glob, True, self.guard, self.lineno)
        return p.ev(fv.node.body)

    def inline_spec(self, f, args, kwargs, extra_env=None):
        prim = getattr(f, '_pyvc_prim', None)
        if prim is not None and extra_env is None:
            return getattr(self, 'prim_' + prim)(*args)
        node, _ = C.func_ast(f)
        if extra_env is not None:
            env = dict(extra_env)
        else:
            sig = inspect.signature(f)
            try:
                ba = sig.bind(*args, **kwargs)
            except TypeError as e:
                return self.unk('bad spec call %s: %s' % (f.__name__, e))
            ba.apply_defaults()
            env = {k: lift(v) for k, v in ba.arguments.items()}
        p = Pure(self.eng, self.st, env, f.__globals__, True, self.guard, self.lineno)
        if isinstance(node, ast.Lambda):
            return p.ev(node.body)
        v = p.run_body(node.body)
        if v is None:
            return ConstV(None)
        return v

    def run_body(self, stmts):
        """merging execution of a spec function body: Assign / If / Return / Expr(docstring)."""
        for i, s in enumerate(stmts):
            if isinstance(s, ast.Expr):
                continue
            if isinstance(s, ast.Pass):
                continue
            if isinstance(s, ast.Return):
                return self.ev(s.value) if s.value is not None else ConstV(None)
            if isinstance(s, ast.Assign):
                v = self.ev(s.value)
                for t in s.targets:
                    self.assign_pure(t, v)
                continue
            if isinstance(s, ast.AugAssign) and isinstance(s.target, ast.Name):
                v = self.binop(s.op, self.lookup(s.target.id), self.ev(s.value))
                self.env[s.target.id] = v
                continue
            if isinstance(s, ast.If):
                c = self.cond(s.test)
                rest = stmts[i + 1:]
                dec = self.eng.decide(self.st, z3.Implies(self.guard, c)) if self.spec else None
                if dec is True:
                    return self.run_body(list(s.body) + rest)
                if dec is False or (dec is None and self.spec
                                    and self.eng.decide(self.st, z3.Implies(self.guard, z3.Not(c))) is True):
                    # (decide False: the path condition entails guard and not c)
                    return self.run_body(list(s.orelse) + rest)
                pa = Pure(self.eng, self.st, dict(self.env), self.glob, True,
                          z3.And(self.guard, c), self.lineno)
                pb = Pure(self.eng, self.st, dict(self.env), self.glob, True,
                          z3.And(self.guard, z3.Not(c)), self.lineno)
                va = pa.run_body(list(s.body) + rest)
                vb = pb.run_body(list(s.orelse) + rest)
                if va is None:
                    va = ConstV(None)
                if vb is None:
                    vb = ConstV(None)
                return self.ite(c, va, vb)
            return self.unk('spec statement %s' % type(s).__name__)
        return None

    def assign_pure(self, target, v):
        if isinstance(target, ast.Name):
            self.env[target.id] = v
        elif isinstance(target, (ast.Tuple, ast.List)):
            items = self.iter_items(v)
            if items is None or len(items) != len(target.elts):
                for t in target.elts:
                    self.assign_pure(t, UnkV('unpack'))
            else:
                for t, x in zip(target.elts, items):
                    self.assign_pure(t, x)

    # -------------------------------------------------------------- spec primitives
    def prim_pow2(self, k):
        t = int_term(k)
        if t is None:
            return self.unk('pow2 of non-int')
        return IntV(pow2_term(t))

    def prim_bitlen(self, x):
        t = int_term(x)
        if t is None:
            return self.unk('bitlen of non-int')
        if z3.is_int_value(t) and t.as_long() >= 0:
            return IntV(t.as_long().bit_length())
        return IntV(bitlen_f(t))

    def prim_ipow(self, b, n):
        return self.binop(ast.Pow(), b, n)

    def prim_implies(self, a, b):
        return BoolV(z3.Implies(self.truthy(a), self.truthy(b)))

    def prim_iff(self, a, b):
        return BoolV(self.truthy(a) == self.truthy(b))

    def prim_is_int(self, x):
        return BoolV(int_term(x) is not None and not isinstance(x, BoolV))

    def prim_fdiv(self, a, b):
        return self.binop(ast.FloorDiv(), a, b)

    def prim_fmod(self, a, b):
        return self.binop(ast.Mod(), a, b)

    def prim_rval(self, x):
        """exact real value of a finite raw mpf (uninterpreted; linked to the sign by val_link)"""
        items = self.iter_items(x)
        if items is None or len(items) != 4:
            return self.unk('rval of non-mpf')
        sg, man, ex = int_term(items[0]), int_term(items[1]), int_term(items[2])
        if sg is None or man is None or ex is None:
            return self.unk('rval of non-mpf')
        if z3.is_int_value(man) and man.as_long() == 0:
            return RealV(z3.RealVal(0))
        r = rval_f(sg, man, ex)
        key = ('rval', r.get_id())
        if key not in self.st.memo:
            # definition of the value as far as its sign goes: (-1)**sign * man * 2**exp with man >= 0
            self.st.memo[key] = r
            self.st.pc.append(z3.And(z3.Implies(man == 0, r == 0),
                                     z3.Implies(z3.And(man > 0, sg == 0), r > 0),
                                     z3.Implies(z3.And(man > 0, sg == 1), r < 0)))
        return RealV(r)

    def prim_r_fun(self, k, v):
        rv = self.real_term(v)
        if rv is None or int_term(k) is None:
            return self.unk('r_fun of non-real')
        return RealV(rfun_f(int_term(k), rv))

    def prim_isqrt(self, x):
        tx = int_term(x)
        if tx is None:
            return self.unk('isqrt of non-int')
        y = isqrt_f(tx)
        key = ('isqrt', y.get_id())
        if key not in self.st.memo:
            # definition of the floor square root
            self.st.memo[key] = y
            self.st.pc.append(z3.Implies(tx >= 0, z3.And(y >= 0, y * y <= tx, tx < (y + 1) * (y + 1))))
        return IntV(y)

    def prim_cfix(self, p):
        return IntV(cfix_f(int_term(p)))

    def prim_shr(self, x, n):
        return self.binop(ast.RShift(), x, n)

    def prim_lowbits(self, x, n):
        tx, tn = int_term(x), int_term(n)
        q, r = self.divmod_pow2(tx, tn)
        return IntV(r)

    # -------------------------------------------------------------- arithmetic
    def divmod_pow2(self, x, n):
        """(x >> n, x mod 2**n) for n >= 0"""
        n = simp(n)
        if z3.is_int_value(n):
            k = n.as_long()
            if k < 0:
                return fresh_int('shr_neg'), fresh_int('shr_neg')
            if k == 0:
                return x, z3.IntVal(0)
            if k <= 4096:
                p = z3.IntVal(1 << k)
                return x / p, x % p
        x = simp(x)
        key = ('shr', x.get_id(), n.get_id())
        if key in self.st.memo:
            return self.st.memo[key][:2]
        q = fresh_int('q')
        r = fresh_int('r')
        P = pow2_f(n)
        self.st.pc.append(z3.Implies(n >= 0, z3.And(x == q * P + r, r >= 0, r < P)))
        self.st.memo[key] = (q, r, x, n)
        return q, r

    def divmod_general(self, a, b):
        b = simp(b)
        if z3.is_int_value(b):
            k = b.as_long()
            if k > 0:
                return a / b, a % b
            if k < 0:
                # floor semantics with negative divisor
                nb = z3.IntVal(-k)
                return (-a) / nb, -((-a) % nb)
            return fresh_int('div0'), fresh_int('div0')
        a = simp(a)
        key = ('div', a.get_id(), b.get_id())
        if key in self.st.memo:
            return self.st.memo[key][:2]
        q = fresh_int('dq')
        r = fresh_int('dr')
        self.st.pc.append(z3.Implies(b > 0, z3.And(a == q * b + r, r >= 0, r < b)))
        self.st.pc.append(z3.Implies(b < 0, z3.And(a == q * b + r, r <= 0, r > b)))
        self.st.memo[key] = (q, r, a, b)
        return q, r

    def binop(self, op, a, b):
        if isinstance(a, IteV):
            return self.ite(a.c, self.binop(op, a.a, b), self.binop(op, a.b, b))
        if isinstance(b, IteV):
            return self.ite(b.c, self.binop(op, a, b.a), self.binop(op, a, b.b))
        ta, tb = int_term(a), int_term(b)
        if ta is None or tb is None:
            return self.binop_nonint(op, a, b)
        if z3.is_int_value(ta) and z3.is_int_value(tb) and isinstance(op, (ast.Add, ast.Sub, ast.Mult)):
            x, y = ta.as_long(), tb.as_long()
            return IntV(x + y if isinstance(op, ast.Add) else x - y if isinstance(op, ast.Sub) else x * y)
        if isinstance(op, ast.Add):
            return IntV(ta + tb)
        if isinstance(op, ast.Sub):
            if z3.is_app(ta) and ta.num_args() == 1 and ta.decl().eq(pow2_f) and \
                    z3.is_int_value(tb) and tb.as_long() == 1:
                return IntV(mk_mask(ta.arg(0)))
            return IntV(ta - tb)
        if isinstance(op, ast.Mult):
            if z3.is_int_value(ta) and ta.as_long() == 1:
                return IntV(tb)
            if z3.is_int_value(tb) and tb.as_long() == 1:
                return IntV(ta)
            return IntV(ta * tb)
        if isinstance(op, ast.FloorDiv):
            self.safety('ZeroDivisionError', tb != 0)
            return IntV(self.divmod_general(ta, tb)[0])
        if isinstance(op, ast.Mod):
            self.safety('ZeroDivisionError', tb != 0)
            # (x mod c1) mod c2 == x mod c2 when c2 | c1  (both positive constants)
            if z3.is_int_value(tb) and tb.as_long() > 0 and z3.is_app_of(ta, z3.Z3_OP_MOD) and \
                    z3.is_int_value(ta.arg(1)) and ta.arg(1).as_long() > 0 and \
                    ta.arg(1).as_long() % tb.as_long() == 0:
                return IntV(ta.arg(0) % tb)
            return IntV(self.divmod_general(ta, tb)[1])
        if isinstance(op, ast.LShift):
            self.safety('negative-shift', tb >= 0)
            if z3.is_int_value(ta) and ta.as_long() == 1:
                return IntV(pow2_term(tb))
            return IntV(ta * pow2_term(tb))
        if isinstance(op, ast.RShift):
            self.safety('negative-shift', tb >= 0)
            return IntV(self.divmod_pow2(ta, tb)[0])
        if isinstance(op, ast.BitAnd):
            return IntV(self.bitand(ta, tb))
        if isinstance(op, ast.BitXor):
            if isinstance(a, BoolV) and isinstance(b, BoolV):
                return BoolV(z3.Xor(a.t, b.t))
            if z3.is_int_value(tb) and tb.as_long() == 0:
                return IntV(ta)
            if z3.is_int_value(ta) and ta.as_long() == 0:
                return IntV(tb)
            return IntV(z3.If(z3.And(ta >= 0, ta <= 1, tb >= 0, tb <= 1),
                              z3.If(ta == tb, z3.IntVal(0), z3.IntVal(1)), xor_uf(ta, tb)))
        if isinstance(op, ast.BitOr):
            if isinstance(a, BoolV) and isinstance(b, BoolV):
                return BoolV(z3.Or(a.t, b.t))
            return IntV(z3.If(z3.And(ta >= 0, ta <= 1, tb >= 0, tb <= 1),
                              z3.If(ta + tb >= 1, z3.IntVal(1), z3.IntVal(0)), or_uf(ta, tb)))
        if isinstance(op, ast.Pow):
            return self.power(ta, tb)
        if isinstance(op, ast.Div):
            return self.unk('true division (float)')
        return self.unk('binop %s' % type(op).__name__)

    def power(self, ta, tb):
        ta, tb = simp(ta), simp(tb)
        if z3.is_int_value(ta) and z3.is_int_value(tb) and 0 <= tb.as_long() <= 4096 \
                and abs(ta.as_long()) <= 1 << 64:
            return IntV(ta.as_long() ** tb.as_long())
        if z3.is_int_value(ta) and ta.as_long() == -1:
            return IntV(z3.If(tb % 2 == 0, z3.IntVal(1), z3.IntVal(-1)))
        if z3.is_int_value(ta) and ta.as_long() == 2:
            self.safety('negative-exponent', tb >= 0)
            return IntV(pow2_term(tb))
        if z3.is_int_value(tb) and 0 <= tb.as_long() <= 4:
            r = z3.IntVal(1)
            for _ in range(tb.as_long()):
                r = r * ta
            return IntV(r)
        self.safety('negative-exponent', tb >= 0)
        return IntV(ipow_f(ta, tb))

    def bitand(self, ta, tb):
        for x, m in ((ta, tb), (tb, ta)):
            if z3.is_int_value(m):
                k = m.as_long()
                if k == 0:
                    return z3.IntVal(0)
                if is_pow2m1(k):
                    return x % z3.IntVal(k + 1)
                if is_single_bit(k):
                    return ((x / z3.IntVal(k)) % 2) * z3.IntVal(k)
        for x, m in ((ta, tb), (tb, ta)):
            mid = m.get_id()
            if mid in _mask_terms:
                e = _mask_terms[mid][0]
                return self.divmod_pow2(x, e)[1]
            if z3.is_app_of(m, z3.Z3_OP_ITE):
                c, y, z = m.arg(0), m.arg(1), m.arg(2)
                return z3.If(c, self.bitand(x, y), self.bitand(x, z))
        return z3.If(z3.And(ta >= 0, ta <= 1), ta * (tb % 2),
                     z3.If(z3.And(tb >= 0, tb <= 1), tb * (ta % 2), and_uf(ta, tb)))

    def real_term(self, v):
        if isinstance(v, RealV):
            return v.t
        if isinstance(v, ConstV) and isinstance(v.obj, float) and v.obj == v.obj and abs(v.obj) != float('inf'):
            from fractions import Fraction
            q = Fraction(v.obj)
            return z3.RealVal(str(q.numerator)) / z3.RealVal(str(q.denominator))
        t = int_term(v)
        if t is not None:
            return z3.ToReal(t)
        return None

    def binop_nonint(self, op, a, b):
        if (isinstance(a, RealV) or isinstance(b, RealV) or
                (isinstance(a, ConstV) and isinstance(a.obj, float)) or (isinstance(b, ConstV) and isinstance(b.obj, float))) \
                and not (isinstance(a, ConstV) and isinstance(b, ConstV)) and isinstance(op, (ast.Add, ast.Sub, ast.Mult, ast.Div)):
            ra, rb = self.real_term(a), self.real_term(b)
            if ra is not None and rb is not None and isinstance(op, ast.Div):
                return RealV(ra / rb)                  # spec use only: the divisor is required to be non-zero by the clause
            if ra is not None and rb is not None:
                if any(isinstance(v, ConstV) and isinstance(v.obj, float) for v in (a, b)):
                    self.eng.note('float arithmetic read as exact real arithmetic (line %s)' % self.lineno)
                return RealV(ra + rb if isinstance(op, ast.Add) else ra - rb if isinstance(op, ast.Sub) else ra * rb)
        if isinstance(op, ast.Add) and isinstance(a, TupV) and isinstance(b, TupV):
            return TupV(a.items + b.items, a.kind)
        if isinstance(a, ConstV) and isinstance(b, ConstV):
            try:
                import operator
                f = {ast.Add: operator.add, ast.Sub: operator.sub, ast.Mult: operator.mul,
                     ast.Mod: operator.mod}.get(type(op))
                if f is not None and isinstance(a.obj, (str, float)) and isinstance(b.obj, (str, float)):
                    return lift(f(a.obj, b.obj))
            except Exception:
                pass
        if isinstance(op, ast.Mult) and isinstance(a, TupV) and is_conc_int(b) and 0 <= conc_int(b) <= 64:
            return TupV(a.items * conc_int(b), a.kind)
        return self.unk('binop on non-int values')

    # -------------------------------------------------------------- comparison
    def compare(self, op, a, b):
        if isinstance(a, IteV):
            return z3.If(a.c, self.compare(op, a.a, b), self.compare(op, a.b, b))
        if isinstance(b, IteV):
            return z3.If(b.c, self.compare(op, a, b.a), self.compare(op, a, b.b))
        if isinstance(op, (ast.Eq, ast.NotEq)):
            e = self.equal(a, b)
            return e if isinstance(op, ast.Eq) else z3.Not(e)
        if isinstance(op, (ast.Is, ast.IsNot)):
            e = self.identical(a, b)
            return e if isinstance(op, ast.Is) else z3.Not(e)
        if isinstance(op, (ast.In, ast.NotIn)):
            e = self.contains(b, a)
            return e if isinstance(op, ast.In) else z3.Not(e)
        ta, tb = int_term(a), int_term(b)
        if isinstance(a, RealV) or isinstance(b, RealV):
            ra, rb = self.real_term(a), self.real_term(b)
            if ra is not None and rb is not None:
                ta, tb = ra, rb
        if ta is None or tb is None:
            ca, cb = to_concrete(a), to_concrete(b)
            if ca is not NOTCONC and cb is not NOTCONC:
                a, b = ConstV(ca), ConstV(cb)
            if isinstance(a, ConstV) and isinstance(b, ConstV):
                try:
                    import operator
                    f = {ast.Lt: operator.lt, ast.LtE: operator.le, ast.Gt: operator.gt,
                         ast.GtE: operator.ge}[type(op)]
                    return z3.BoolVal(bool(f(a.obj, b.obj)))
                except Exception:
                    pass
            if not self.eng.tolerant and not self.spec:
                self.eng.note('havoc: ordering comparison on non-int (line %s)' % self.lineno)
            return fresh_bool('cmp')
        if isinstance(op, ast.Lt):
            return ta < tb
        if isinstance(op, ast.LtE):
            return ta <= tb
        if isinstance(op, ast.Gt):
            return ta > tb
        if isinstance(op, ast.GtE):
            return ta >= tb
        return fresh_bool('cmp')

    def equal(self, a, b):
        ta, tb = int_term(a), int_term(b)
        if ta is not None and tb is not None:
            return ta == tb
        if isinstance(a, RealV) or isinstance(b, RealV):
            ra, rb = self.real_term(a), self.real_term(b)
            if ra is not None and rb is not None:
                return ra == rb
        if isinstance(a, TupV) and isinstance(b, TupV):
            if len(a.items) != len(b.items) or a.kind != b.kind:
                return FALSE
            return mk_and([self.equal(x, y) for x, y in zip(a.items, b.items)])
        if isinstance(a, ConstV) and isinstance(b, ConstV):
            try:
                return z3.BoolVal(bool(a.obj == b.obj))
            except Exception:
                return fresh_bool('eq')
        if isinstance(a, HexV) and isinstance(b, HexV) and a.stripped == b.stripped:
            return a.t == b.t
        if isinstance(a, (UnkV, ObjV, FuncV)) or isinstance(b, (UnkV, ObjV, FuncV)):
            if isinstance(a, ObjV) and isinstance(b, ObjV) and a.oid == b.oid:
                return TRUE
            return fresh_bool('eq')
        # values of different modelled kinds (int vs tuple/str/None ...) are unequal,
        # except int vs float constants
        for x, y in ((a, b), (b, a)):
            if isinstance(x, ConstV) and isinstance(x.obj, float):
                ty = int_term(y)
                if ty is not None:
                    if x.obj == int(x.obj) if x.obj == x.obj and abs(x.obj) != float('inf') else False:
                        return ty == int(x.obj)
                    return FALSE
            if isinstance(x, ConstV) and isinstance(x.obj, (tuple, list)) and isinstance(y, TupV):
                if len(x.obj) != len(y.items):
                    return FALSE
                return mk_and([self.equal(lift(p), q) for p, q in zip(x.obj, y.items)])
        return FALSE

    def identical(self, a, b):
        if isinstance(a, ConstV) and isinstance(b, ConstV):
            return z3.BoolVal(a.obj is b.obj)
        if isinstance(a, BoolV) and isinstance(b, BoolV):
            return a.t == b.t           # True / False are singletons
        if (isinstance(a, BoolV) and isinstance(b, ConstV)) or (isinstance(b, BoolV) and isinstance(a, ConstV)):
            return FALSE
        if isinstance(a, (UnkV, IteV)) or isinstance(b, (UnkV, IteV)):
            return fresh_bool('is')
        if isinstance(a, ObjV) and isinstance(b, ObjV):
            return z3.BoolVal(a.oid == b.oid)
        for x, y in ((a, b), (b, a)):
            if isinstance(x, ConstV) and x.obj is None:
                return FALSE      # y is a modelled non-None value
        return fresh_bool('is')

    def contains(self, cont, x):
        if isinstance(cont, TupV):
            return mk_or([self.equal(x, y) for y in cont.items])
        if isinstance(cont, ConstV):
            obj = cont.obj
            if isinstance(x, ConstV):
                try:
                    return z3.BoolVal(x.obj in obj)
                except Exception:
                    return fresh_bool('in')
            if is_conc_int(x):
                try:
                    return z3.BoolVal(conc_int(x) in obj)
                except Exception:
                    return fresh_bool('in')
            dm = C.DICTS.get(id(obj))
            tx = int_term(x)
            if dm is not None and tx is not None:
                return z3.And(tx >= dm.lo, tx < dm.hi)
            if isinstance(obj, SymDict) and tx is not None:
                return mk_or([tx == k for k in obj.keys if isinstance(k, int)])
            if isinstance(obj, (tuple, list, set, frozenset, dict)) and len(obj) <= 64:
                if isinstance(x, TupV) or tx is not None:
                    return mk_or([self.equal(x, lift(y)) for y in obj])
        if not self.eng.tolerant:
            self.eng.note('havoc: membership test (line %s)' % self.lineno)
        return fresh_bool('in')

    # -------------------------------------------------------------- subscripting
    def subscript(self, base, idx):
        if isinstance(base, IteV):
            return self.ite(base.c, self.sub(z3.And(self.guard, base.c)).subscript(base.a, idx),
                            self.sub(z3.And(self.guard, z3.Not(base.c))).subscript(base.b, idx))
        if isinstance(idx, IteV):
            return self.ite(idx.c, self.sub(z3.And(self.guard, idx.c)).subscript(base, idx.a),
                            self.sub(z3.And(self.guard, z3.Not(idx.c))).subscript(base, idx.b))
        ti = int_term(idx)
        if isinstance(base, TupV):
            n = len(base.items)
            if ti is None:
                return self.unk('tuple index of unknown kind')
            ti = simp(ti)
            if z3.is_int_value(ti):
                k = ti.as_long()
                if -n <= k < n:
                    return base.items[k]
                self.safety('IndexError', FALSE)
                return self.unk('index out of range')
            self.safety('IndexError', z3.And(ti >= 0, ti < n))
            res = base.items[n - 1]
            for k in range(n - 2, -1, -1):
                res = self.ite(ti == k, base.items[k], res)
            return res
        if isinstance(base, ConstV):
            obj = base.obj
            if isinstance(obj, SymDict):
                return self.symdict_get(obj, idx)
            if isinstance(obj, (list, tuple, str)) or C.TABLES.get(id(obj)) is not None:
                if ti is None:
                    return self.unk('index of unknown kind')
                ti = simp(ti)
                if z3.is_int_value(ti):
                    try:
                        return lift(obj[ti.as_long()])
                    except Exception:
                        self.safety('IndexError', FALSE)
                        return self.unk('index error')
                tm = C.TABLES.get(id(obj))
                if tm is not None:
                    self.safety('IndexError', z3.And(ti >= tm.lo, ti < tm.hi))
                    return self.inline_spec(tm.fn, [IntV(ti)], {})
                if len(obj) <= 32:
                    n = len(obj)
                    self.safety('IndexError', z3.And(ti >= 0, ti < n))
                    res = lift(obj[n - 1])
                    for k in range(n - 2, -1, -1):
                        res = self.ite(ti == k, lift(obj[k]), res)
                    return res
                return self.unk('symbolic index into unmodelled table')
            if isinstance(obj, dict):
                dm = C.DICTS.get(id(obj))
                if isinstance(idx, ConstV) or is_conc_int(idx):
                    key = idx.obj if isinstance(idx, ConstV) else conc_int(idx)
                    try:
                        return lift(obj[key])
                    except Exception:
                        self.safety('KeyError', FALSE)
                        return self.unk('key error')
                if dm is not None and ti is not None:
                    self.safety('KeyError', z3.And(ti >= dm.lo, ti < dm.hi))
                    res = make_shape(dm.shape, 'dictval')
                    f = self.inline_spec(dm.rel, [IntV(ti), res], {})
                    self.st.pc.append(z3.Implies(z3.And(ti >= dm.lo, ti < dm.hi), self.truthy(f)))
                    return res
                return self.unk('symbolic key into unmodelled dict')
            # user object with __getitem__ written in Python (e.g. libmpf.h_mask_big)
            gi = getattr(type(obj), '__getitem__', None)
            if isinstance(gi, types.FunctionType):
                return self.inline_spec(gi, [base, idx], {})
        return self.unk('subscript of %s' % type(base).__name__)

    def symdict_get(self, d, idx):
        ti = int_term(idx)
        if isinstance(idx, ConstV):
            for k, v in zip(d.keys, d.vals):
                if not isinstance(k, int) and k == idx.obj:
                    return v
            self.safety('KeyError', FALSE)
            return self.unk('key error')
        if ti is None:
            return self.unk('dict key of unknown kind')
        ks = [(k, v) for k, v in zip(d.keys, d.vals) if isinstance(k, int)]
        if not ks:
            self.safety('KeyError', FALSE)
            return self.unk('key error')
        self.safety('KeyError', mk_or([ti == k for k, _ in ks]))
        res = ks[-1][1]
        for k, v in reversed(ks[:-1]):
            res = self.ite(ti == k, v, res)
        return res

    def slice(self, base, lo, hi, step):
        if isinstance(base, HexV) and not base.stripped and hi is None and step is None and \
                lo is not None and is_conc_int(lo) and conc_int(lo) == 2:
            return HexV(base.t, True)
        if isinstance(base, ConstV) and isinstance(base.obj, (tuple, list, str)):
            items = None
            try:
                l = None if lo is None else conc_int(lo) if is_conc_int(lo) else 'x'
                h = None if hi is None else conc_int(hi) if is_conc_int(hi) else 'x'
                s = None if step is None else conc_int(step) if is_conc_int(step) else 'x'
                if 'x' not in (l, h, s):
                    return lift(base.obj[l:h:s])
            except Exception:
                pass
        if isinstance(base, TupV):
            try:
                l = None if lo is None else conc_int(lo) if is_conc_int(lo) else 'x'
                h = None if hi is None else conc_int(hi) if is_conc_int(hi) else 'x'
                s = None if step is None else conc_int(step) if is_conc_int(step) else 'x'
                if 'x' not in (l, h, s):
                    return TupV(base.items[l:h:s], base.kind)
            except Exception:
                pass
        return self.unk('slice')


NOTCONC = object()


def to_concrete(v):
    """the Python object denoted by a fully concrete value, else NOTCONC"""
    if isinstance(v, ConstV):
        return v.obj
    if isinstance(v, IntV):
        return v.t.as_long() if z3.is_int_value(v.t) else NOTCONC
    if isinstance(v, BoolV):
        if z3.is_true(v.t):
            return True
        if z3.is_false(v.t):
            return False
        return NOTCONC
    if isinstance(v, TupV):
        items = [to_concrete(x) for x in v.items]
        if any(x is NOTCONC for x in items):
            return NOTCONC
        return tuple(items) if v.kind == 'tuple' else items
    return NOTCONC


class SymDict(object):
    """dict literal with concrete keys and symbolic values"""

    def __init__(self, keys, vals):
        self.keys = keys
        self.vals = vals

    def __bool__(self):
        return bool(self.keys)

    def __contains__(self, k):
        return k in self.keys


def make_shape(shape, name):
    """fresh symbolic value of a declared shape"""
    if shape == 'int':
        return IntV(fresh_int(name))
    if shape == 'bool':
        return BoolV(fresh_bool(name))
    if shape == 'real':
        return RealV(fresh_real(name))
    if shape == 'mpf':
        return TupV([IntV(fresh_int(name + '_sign')), IntV(fresh_int(name + '_man')),
                     IntV(fresh_int(name + '_exp')), IntV(fresh_int(name + '_bc'))])
    if shape in ('mpc', 'mpi'):
        return TupV([make_shape('mpf', name + '_a'), make_shape('mpf', name + '_b')])
    if isinstance(shape, tuple) and shape and shape[0] == 'tuple':
        return TupV([make_shape(s, '%s_%d' % (name, i)) for i, s in enumerate(shape[1:])])
    if isinstance(shape, tuple) and shape and shape[0] == 'const':
        return lift(shape[1])
    if shape == 'none':
        return ConstV(None)
    return UnkV(name)


# ------------------------------------------------------------------------- pure builtins

@_reg(int)
def _b_int(p, args, kw):
    if len(args) == 1 and not kw:
        t = int_term(args[0])
        if t is not None:
            return IntV(t)
        if isinstance(args[0], RealV):
            r = args[0].t                              # truncation toward zero
            return IntV(z3.If(r >= 0, z3.ToInt(r), -z3.ToInt(-r)))
    if len(args) == 2 and not kw and isinstance(args[0], HexV) and is_conc_int(args[1]) and conc_int(args[1]) == 16:
        return IntV(args[0].t)          # assumed builtin round trip (trusted base)
    return p.unk('int() of non-int')


@_reg(hex)
def _b_hex(p, args, kw):
    t = int_term(args[0]) if len(args) == 1 else None
    if t is None:
        return p.unk('hex of non-int')
    p.safety('hex-of-negative', t >= 0)     # '-0x..' would not survive the [2:] slice
    return HexV(t)


@_reg(bool)
def _b_bool(p, args, kw):
    if len(args) == 1:
        return BoolV(p.truthy(args[0]))
    return BoolV(False)


@_reg(abs)
def _b_abs(p, args, kw):
    t = int_term(args[0]) if args else None
    if t is None:
        return p.unk('abs of non-int')
    return IntV(z3.If(t >= 0, t, -t))


@_reg(min)
def _b_min(p, args, kw):
    if len(args) == 1:
        items = p.iter_items(args[0])
        if items is None:
            return p.unk('min of unknown iterable')
        args = items
    ts = [int_term(a) for a in args]
    if kw or not ts or any(t is None for t in ts):
        return p.unk('min of non-int')
    r = ts[0]
    for t in ts[1:]:
        r = z3.If(t < r, t, r)
    return IntV(r)


@_reg(max)
def _b_max(p, args, kw):
    if len(args) == 1:
        items = p.iter_items(args[0])
        if items is None:
            return p.unk('max of unknown iterable')
        args = items
    ts = [int_term(a) for a in args]
    if kw or not ts or any(t is None for t in ts):
        return p.unk('max of non-int')
    r = ts[0]
    for t in ts[1:]:
        r = z3.If(t > r, t, r)
    return IntV(r)


@_reg(len)
def _b_len(p, args, kw):
    a = args[0]
    if isinstance(a, TupV):
        return IntV(len(a.items))
    if isinstance(a, ConstV):
        try:
            return IntV(len(a.obj))
        except Exception:
            pass
    return p.unk('len of unknown')


@_reg(divmod)
def _b_divmod(p, args, kw):
    ta, tb = int_term(args[0]), int_term(args[1])
    if ta is None or tb is None:
        return p.unk('divmod of non-int')
    p.safety('ZeroDivisionError', tb != 0)
    q, r = p.divmod_general(ta, tb)
    return TupV([IntV(q), IntV(r)])


@_reg(all)
def _b_all(p, args, kw):
    items = p.iter_items(args[0])
    if items is None:
        return p.unk('all of unknown iterable')
    return BoolV(mk_and([p.truthy(x) for x in items]))


@_reg(any)
def _b_any(p, args, kw):
    items = p.iter_items(args[0])
    if items is None:
        return p.unk('any of unknown iterable')
    return BoolV(mk_or([p.truthy(x) for x in items]))


@_reg(tuple)
def _b_tuple(p, args, kw):
    if not args:
        return TupV([])
    items = p.iter_items(args[0])
    if items is None:
        return p.unk('tuple() of unknown')
    return TupV(items, 'tuple')


@_reg(list)
def _b_list(p, args, kw):
    if not args:
        return TupV([], 'list')
    items = p.iter_items(args[0])
    if items is None:
        return p.unk('list() of unknown')
    return TupV(items, 'list')


@_reg(range)
def _b_range(p, args, kw):
    if all(is_conc_int(a) for a in args) and 1 <= len(args) <= 3:
        r = range(*[conc_int(a) for a in args])
        if len(r) <= 64:
            return TupV([IntV(i) for i in r], 'list')
    return ConstV(RangeV(args))


class RangeV(object):
    def __init__(self, args):
        self.args = args


@_reg(isinstance)
def _b_isinstance(p, args, kw):
    a, cls = args
    if isinstance(cls, ConstV):
        c = cls.obj
        ints = (int,)
        if isinstance(a, IntV):
            try:
                return BoolV(issubclass(int, c) if isinstance(c, type) else any(issubclass(int, x) for x in c))
            except Exception:
                pass
        if isinstance(a, BoolV):
            try:
                return BoolV(issubclass(bool, c) if isinstance(c, type) else any(issubclass(bool, x) for x in c))
            except Exception:
                pass
        if isinstance(a, TupV):
            t = tuple if a.kind == 'tuple' else list
            try:
                return BoolV(issubclass(t, c) if isinstance(c, type) else any(issubclass(t, x) for x in c))
            except Exception:
                pass
        if isinstance(a, ConstV):
            try:
                return BoolV(isinstance(a.obj, c))
            except Exception:
                pass
    return BoolV(fresh_bool('isinstance'))


# =========================================================================== path executor

NEXT, RET, RAISE, BRK, CONT = 'next', 'return', 'raise', 'break', 'continue'


class PathExec(object):
    def __init__(self, eng):
        self.eng = eng

    # ------------------------------------------------------------------ expression = hoist calls, then pure
    def pure(self, st, frame, lineno, guard=TRUE):
        return Pure(self.eng, st, st.env, frame.glob, False, guard, lineno, frame.closure)

    def eval(self, node, st, frame):
        """generator of (state, value); value may be ExcV"""
        for st2, exc in self.hoist(node, st, frame, TRUE):
            if exc is not None:
                yield st2, exc
            else:
                v = self.pure(st2, frame, getattr(node, 'lineno', 0)).ev(node)
                yield from self.flush_pending(st2, v)

    def flush_pending(self, st, v):
        """declared exceptions raised by primitive operations during the last evaluation"""
        pend, st.pending = st.pending, []
        for cond, name, lineno in pend:
            if self.eng.feasible(st, cond):
                s2 = st.fork()
                s2.assume(cond)
                s2.trace.append('L%s:raises %s' % (lineno, name))
                yield s2, ExcV(name, 'raised by an operation at line %s' % lineno)
            st.assume(z3.Not(cond))
        yield st, v

    def hoist(self, node, st, frame, guard):
        """perform all Call nodes inside `node` in evaluation order; results go to st.calls.
        yields (state, None) or (state, ExcV)."""
        if node is None:
            yield st, None
            return
        if isinstance(node, ast.Call):
            yield from self.hoist_call(node, st, frame, guard)
            return
        if isinstance(node, (ast.Lambda, ast.ListComp, ast.GeneratorExp, ast.SetComp, ast.DictComp)):
            yield st, None
            return
        if isinstance(node, ast.BoolOp):
            yield from self.hoist_boolop(node, 0, st, frame, guard, guard)
            return
        if isinstance(node, ast.IfExp):
            for st1, e in self.hoist(node.test, st, frame, guard):
                if e is not None:
                    yield st1, e
                    continue
                p = self.pure(st1, frame, node.lineno, guard)
                c = p.truthy(p.ev(node.test))
                for st2, e2 in self.hoist(node.body, st1, frame, z3.And(guard, c)):
                    if e2 is not None:
                        yield st2, e2
                        continue
                    yield from self.hoist(node.orelse, st2, frame, z3.And(guard, z3.Not(c)))
            return
        children = [c for c in ast.iter_child_nodes(node) if isinstance(c, (ast.expr, ast.keyword, ast.Slice))]
        yield from self.hoist_seq(children, 0, st, frame, guard)

    def hoist_seq(self, nodes, i, st, frame, guard):
        if i >= len(nodes):
            yield st, None
            return
        n = nodes[i]
        if isinstance(n, ast.keyword):
            n = n.value
        for st1, e in self.hoist(n, st, frame, guard):
            if e is not None:
                yield st1, e
            else:
                yield from self.hoist_seq(nodes, i + 1, st1, frame, guard)

    def hoist_boolop(self, node, i, st, frame, guard0, guard):
        if i >= len(node.values):
            yield st, None
            return
        for st1, e in self.hoist(node.values[i], st, frame, guard):
            if e is not None:
                yield st1, e
                continue
            p = self.pure(st1, frame, node.lineno, guard)
            t = p.truthy(p.ev(node.values[i]))
            g2 = z3.And(guard, t) if isinstance(node.op, ast.And) else z3.And(guard, z3.Not(t))
            yield from self.hoist_boolop(node, i + 1, st1, frame, guard0, g2)

    def hoist_call(self, node, st, frame, guard):
        subs = [node.func] + list(node.args) + [k.value for k in node.keywords]
        for st1, e in self.hoist_seq(subs, 0, st, frame, guard):
            if e is not None:
                yield st1, e
                continue
            p = self.pure(st1, frame, node.lineno, guard)
            fv = p.ev(node.func)
            if isinstance(fv, ConstV) and (id(fv.obj) in PURE_BUILTINS or
                                           getattr(fv.obj, '_pyvc_prim', None)):
                yield st1, None
                continue
            args, bad = [], False
            for a in node.args:
                if isinstance(a, ast.Starred):
                    bad = True
                    break
                args.append(p.ev(a))
            kwargs = {}
            for k in node.keywords:
                if k.arg is None:
                    kv = p.ev(k.value)
                    if isinstance(kv, ConstV) and isinstance(kv.obj, (SymDict, dict)) and not kv.obj:
                        continue                       # **{}: no keyword arguments
                    bad = True
                    break
                kwargs[k.arg] = p.ev(k.value)
            if bad:
                args, kwargs = None, None
            for st2, v in self.call(fv, args, kwargs, st1, frame, guard, node):
                if isinstance(v, ExcV):
                    yield st2, v
                else:
                    st2.calls[id(node)] = v
                    ctf = frame.contract
                    if ctf is not None and (ctf.ghost or ctf.post_hints) and isinstance(node.func, ast.Name):
                        # ghost name for the (latest) result of a call: usable by ghost code / post_hints
                        st2.env['g_call_' + node.func.id] = v
                        cur = getattr(frame, 'cur_ghost_stmt', None)
                        when = 'call:' + node.func.id
                        if cur is not None and ((cur[0], cur[1], when) in ctf.ghost or (cur[0], None, when) in ctf.ghost):
                            # ghost code right after this call returned (before the enclosing
                            # expression continues): may case-split on g_call_<name>
                            for st3 in self.ghost_at(ctf, cur[0], cur[1], when, [st2], frame, cur[2]):
                                yield st3, None
                            continue
                    yield st2, None

    # ------------------------------------------------------------------ calls
    def call(self, fv, args, kwargs, st, frame, guard, node):
        lineno = getattr(node, 'lineno', 0)
        eng = self.eng
        if isinstance(fv, IteV):
            # fork on the choice
            for c, f in ((fv.c, fv.a), (z3.Not(fv.c), fv.b)):
                if eng.feasible(st, z3.And(guard, c)):
                    s2 = st.fork()
                    s2.assume(z3.Implies(guard, c))
                    yield from self.call(f, args, kwargs, s2, frame, guard, node)
            return
        if args is None:
            yield from self.unknown_call(fv, st, frame, guard, node, 'star-args call')
            return
        ctf = frame.contract
        if isinstance(fv, ObjV) and ctf is not None and fv.oid in getattr(ctf, 'closure_model', {}) \
                and ctf.closure_model[fv.oid].get('call') is not None and not kwargs:
            # call of a modelled free variable: its assumed contract (requires checked, result assumed)
            cm = ctf.closure_model[fv.oid]
            p = Pure(eng, st, {}, ct_globals(ctf), True, guard, lineno)
            if cm.get('call_requires') is not None:
                r = p.inline_spec(cm['call_requires'], args, {})
                eng.oblig(st, 'precondition', 'call:%s.requires' % fv.oid, p.truthy(r), lineno, guard=guard)
            eng.__dict__.setdefault('used_contracts', set()).add('%s:<free variable %s>' % (ctf.target, fv.oid))
            if cm.get('may_raise'):
                # the callee may be aborted by any exception (KeyboardInterrupt, MemoryError, an injected fault)
                s2 = st.fork()
                s2.trace.append('L%s:%s raises' % (lineno, fv.oid))
                yield s2, ExcV('CalleeException', 'raised by the modelled free variable %s' % fv.oid)
            yield st, p.inline_spec(cm['call'], args, {})
            return
        if isinstance(fv, FuncV):
            if isinstance(fv.node, ast.Lambda):
                env = dict(fv.env)
                for a, v in zip(fv.node.args.args, args):
                    env[a.arg] = v
                p = Pure(eng, st, env, frame.glob, False, guard, lineno, fv.env)
                yield st, p.ev(fv.node.body)
                return
            stack = self.eng.__dict__.setdefault('inline_stack', [])
            if id(fv.node) in stack or len(stack) > 6:
                yield from self.unknown_call(fv, st, frame, guard, node, 'recursive nested function')
                return
            stack.append(id(fv.node))
            try:
                outs = list(self.inline_funcdef(fv.node, fv.env, frame.glob, args, kwargs, st, guard, lineno))
            finally:
                stack.pop()
            for o in outs:
                yield o
            return
        if isinstance(fv, ConstV):
            f = fv.obj
            if isinstance(f, types.MethodType):
                # bound method of a concrete object
                args = [ConstV(f.__self__)] + list(args)
                f = f.__func__
            ct = getattr(eng, 'registry', C.REGISTRY).get(id(f)) if getattr(eng, 'use_contracts', True) else None
            if ct is not None:
                if ct.inline and eng.inline_depth < 4:
                    yield from self.inline_real(ct.func, args, kwargs, st, guard, lineno)
                else:
                    yield from self.call_contract(ct, args, kwargs, st, guard, lineno)
                return
            if isinstance(f, type) and issubclass(f, BaseException):
                yield st, ConstV(ExcInstance(f))
                return
            if isinstance(f, types.FunctionType) and getattr(f, '__module__', '') == 'pyvc.spec':
                p = Pure(eng, st, st.env, frame.glob, True, guard, lineno)
                yield st, p.inline_spec(f, args, kwargs)
                return
        yield from self.unknown_call(fv, st, frame, guard, node, 'no contract')

    def unknown_call(self, fv, st, frame, guard, node, why):
        eng = self.eng
        name = describe_callee(fv, node)
        if not eng.tolerant:
            eng.note('havoc: call of %s without contract (%s, line %s)' % (name, why, getattr(node, 'lineno', 0)))
        h = getattr(eng, 'on_unknown_call', None)
        if h is not None:
            yield from h(self, fv, st, frame, guard, node, name)
            return
        yield st, UnkV('result of %s' % name)

    def bind(self, fn_or_sig, args, kwargs):
        sig = fn_or_sig if isinstance(fn_or_sig, inspect.Signature) else inspect.signature(fn_or_sig)
        ba = sig.bind(*args, **kwargs)
        ba.apply_defaults()
        out = {}
        for k, v in ba.arguments.items():
            kind = sig.parameters[k].kind
            if kind == inspect.Parameter.VAR_POSITIONAL:
                out[k] = TupV([lift(x) for x in v])
            elif kind == inspect.Parameter.VAR_KEYWORD:
                out[k] = ConstV(SymDict(list(v.keys()), [lift(x) for x in v.values()]))
            else:
                out[k] = lift(v)
        return out

    def call_contract(self, ct, args, kwargs, st, guard, lineno):
        eng = self.eng
        try:
            env = self.bind(ct.sig, args, kwargs)
        except TypeError as e:
            eng.note('havoc: cannot bind call of %s: %s' % (ct.target, e))
            yield st, UnkV('unbindable call')
            return
        for k, dv in ct.none_as.items():
            if isinstance(env.get(k), ConstV) and env[k].obj is None:
                env[k] = lift(dv)
        p = Pure(eng, st, env, ct.func.__globals__, True, guard, lineno)
        short = ct.target.split('.')[-1]
        eng.__dict__.setdefault('used_contracts', set()).add(getattr(ct, 'name', ct.target))
        ginsts = []
        if ct.ghost_params:
            # universally quantified contract: instantiate the ghost parameters as the caller's contract says
            caller = eng.cur_contract
            k = st.ghostcount.get('call:' + short, 0)
            st.ghostcount['call:' + short] = k + 1
            specs = (getattr(caller, 'call_insts', {}) or {}).get((short, k)) or (getattr(caller, 'call_insts', {}) or {}).get(short) or []
            pc_ = Pure(eng, st, st.env, ct_globals(caller) if caller is not None else ct.func.__globals__, True, guard, lineno)
            for spec_ in specs:
                ginsts.append({g: pc_.ev(ast.parse(src, mode='eval').body) for g, src in spec_.items()})
            if not specs and not eng.tolerant:
                eng.note('call of %s (line %s): quantified contract used without instantiation' % (short, lineno))
        is_g = lambda fn: any(n in ct.ghost_params for n in inspect.signature(fn).parameters)   # noqa: E731
        if ct.requires is not None and not is_g(ct.requires):
            r = p.inline_spec(ct.requires, [], {}, extra_env=pick_env(ct.requires, env))
            eng.oblig(st, 'precondition', 'call:%s.requires' % short, p.truthy(r), lineno, guard=guard,
                      props=None)
        # exceptional outcomes declared by the contract
        normal = []
        for excname, fn in ct.raises.items():
            c = p.truthy(p.inline_spec(fn, [], {}, extra_env=pick_env(fn, env)))
            if eng.feasible(st, z3.And(guard, c)):
                s2 = st.fork()
                s2.assume(z3.Implies(guard, c))
                s2.trace.append('L%s:%s raises %s' % (lineno, short, excname))
                yield s2, ExcV(excname, 'raised by %s' % ct.target)
            normal.append(z3.Not(c))
        if normal:
            nc = mk_and(normal)
            if not eng.feasible(st, z3.And(guard, nc)):
                return
            st.assume(z3.Implies(guard, nc))
        res = make_shape(ct.result, short + '_res')
        env2 = dict(env)
        env2['result'] = res
        for name, fn, props in ct.ensures:
            if name in ct.native_clauses:
                continue
            if ct.ghost_params and is_g(fn):
                # one instance of  (ghost requires => clause)  per declared instantiation
                for gi in ginsts:
                    env3 = dict(env2)
                    env3.update(gi)
                    pre = TRUE
                    if getattr(ct, 'requires_g', None) is not None:
                        pre = p.truthy(p.inline_spec(ct.requires_g, [], {}, extra_env=pick_env(ct.requires_g, env3)))
                    e = p.inline_spec(fn, [], {}, extra_env=pick_env(fn, env3))
                    st.assume(z3.Implies(z3.And(guard, pre), p.truthy(e)))
                continue
            e = p.inline_spec(fn, [], {}, extra_env=pick_env(fn, env2))
            st.assume(z3.Implies(guard, p.truthy(e)))
        yield st, res

    def inline_real(self, fn, args, kwargs, st, guard, lineno):
        eng = self.eng
        fi = get_funcinfo(fn)
        try:
            env = self.bind(fi.sig, args, kwargs)
        except TypeError as e:
            yield st, UnkV('unbindable inline call')
            return
        yield from self.run_inlined(fi.node, env, fi.glob_frame(), st, guard, lineno)

    def inline_funcdef(self, node, closure, glob, args, kwargs, st, guard, lineno):
        # nested def: bind by position / name / defaults evaluated lazily (defaults: havoc)
        env = {}
        a = node.args
        names = [x.arg for x in a.posonlyargs + a.args]
        for n, v in zip(names, args):
            env[n] = v
        for k, v in (kwargs or {}).items():
            env[k] = v
        for n in names + [x.arg for x in a.kwonlyargs]:
            if n not in env:
                env[n] = UnkV('default of %s' % n)
        if a.vararg:
            env[a.vararg.arg] = TupV(args[len(names):])
        if a.kwarg:
            env[a.kwarg.arg] = UnkV('kwargs')
        fr = Frame(glob, closure, None)
        yield from self.run_inlined(node, env, fr, st, guard, lineno)

    def run_inlined(self, node, env, fr, st, guard, lineno):
        eng = self.eng
        caller_env = st.env
        caller_calls = st.calls
        st.env = env
        st.calls = {}
        if not z3.is_true(simp(guard)):
            # inlining under a guard: assume the guard on this path (fork happened upstream)
            st.assume(guard)
        eng.inline_depth += 1
        try:
            outs = list(self.block(node.body, st, fr))
        finally:
            eng.inline_depth -= 1
        for st2, sig, val in outs:
            st2.env = dict(caller_env)
            st2.calls = dict(caller_calls)
            if sig == RAISE:
                yield st2, val
            elif sig == RET:
                yield st2, val
            else:
                yield st2, ConstV(None)

    # ------------------------------------------------------------------ statements
    def block(self, stmts, st, frame):
        """generator of (state, signal, value)"""
        if not stmts:
            yield st, NEXT, None
            return
        head, rest = stmts[0], stmts[1:]
        merger = getattr(self.eng, 'merge_key', None)
        if merger is None:
            for st1, sig, val in self.stmt(head, st, frame):
                if sig == NEXT:
                    yield from self.block(rest, st1, frame)
                else:
                    yield st1, sig, val
            return
        # state merging (used by the tolerant analyses): states that agree on everything the
        # analysis tracks continue as one state with the common path-condition prefix
        groups = {}
        order = []
        for st1, sig, val in self.stmt(head, st, frame):
            if sig != NEXT:
                yield st1, sig, val
                continue
            k = merger(st1)
            if k in groups:
                groups[k] = merge_states(groups[k], st1)
            else:
                groups[k] = st1
                order.append(k)
        for k in order:
            yield from self.block(rest, groups[k], frame)

    def stmt(self, s, st, frame):
        m = getattr(self, 'st_' + type(s).__name__, None)
        if m is None:
            self.eng.note('havoc: statement %s (line %s)' % (type(s).__name__, s.lineno))
            self.havoc_names(assigned_names([s]), st)
            yield st, NEXT, None
            return
        ct = frame.contract
        if ct is None or not ct.ghost:
            yield from m(s, st, frame)
            return
        text = stmt_head(s)
        k = st.ghostcount.get(text, 0)
        st.ghostcount[text] = k + 1
        for st0 in self.ghost_at(ct, text, k, 'before', [st], frame, s.lineno):
            frame.cur_ghost_stmt = (text, k, s.lineno)
            for st1, sig, val in m(s, st0, frame):
                if sig == NEXT:
                    for st2 in self.ghost_at(ct, text, k, 'after', [st1], frame, s.lineno):
                        yield st2, sig, val
                elif sig == RET and isinstance(s, ast.Return) and ((text, k, 'result') in ct.ghost
                                                                   or (text, None, 'result') in ct.ghost):
                    # ghost code at the return point: sees g_result and the g_call_* results
                    st1.env['g_result'] = val
                    for st2 in self.ghost_at(ct, text, k, 'result', [st1], frame, s.lineno):
                        yield st2, sig, val
                else:
                    yield st1, sig, val

    def ghost_at(self, ct, text, k, when, sts, frame, lineno):
        """ghost code anchored at a statement.  Three forms (checked at contract load):
          'g_x = expr'        bind a ghost variable
          'lemma_foo(args)'   assume an instance of a theorem of lemmalib.py
          'split v lo hi'     case split: fork one path per integer value lo..hi of the
                              program variable v (plus an obligation that v is in range),
                              making v concrete on each path
        """
        for key in ((text, k, when), (text, None, when)):
            if key not in ct.ghost:
                continue
            frame.ghost_used.add(key)
            for src in ct.ghost[key]:
                src = src.strip()
                if src.startswith('split '):
                    _, var, lo, hi = src.split()
                    new = []
                    for st in sts:
                        v = st.env.get(var)
                        t = int_term(v) if v is not None else None
                        if t is None:
                            new.append(st)
                            continue
                        self.eng.oblig(st, 'ghost', 'split:%s in %s..%s' % (var, lo, hi),
                                       z3.And(t >= int(lo), t <= int(hi)), lineno)
                        for c in range(int(lo), int(hi) + 1):
                            if self.eng.feasible(st, t == c):
                                s2 = st.fork()
                                s2.assume(t == c)
                                if is_uconst_term(t):
                                    # the split variable is an input symbol: make it concrete
                                    # everywhere (locals and the entry values used by ensures)
                                    cv = z3.IntVal(c)
                                    s2.env = {k: subst_val(v, t, cv) for k, v in s2.env.items()}
                                    s2.entry = {k: subst_val(v, t, cv) for k, v in s2.entry.items()}
                                s2.env[var] = IntV(c)
                                s2.trace.append('L%s:%s=%d' % (lineno, var, c))
                                new.append(s2)
                    sts = new
                    continue
                if src.startswith('case '):
                    # boolean case split: fork on a side-effect-free expression over the locals
                    node = ast.parse(src[5:].strip(), mode='eval').body
                    new = []
                    for st in sts:
                        p = Pure(self.eng, st, st.env, ct_globals(ct), True, TRUE, lineno)
                        c = p.truthy(p.ev(node))
                        for cc, tag in ((c, 'T'), (z3.Not(c), 'F')):
                            if self.eng.feasible(st, cc):
                                s2 = st.fork()
                                s2.assume(cc)
                                s2.trace.append('L%s:case[%s]=%s' % (lineno, src[5:].strip(), tag))
                                new.append(s2)
                    sts = new
                    continue
                if src.startswith('assert '):
                    # intermediate fact: proved where it stands (own obligation), then assumed
                    node = ast.parse(src[7:].strip(), mode='eval').body
                    for st in sts:
                        p = Pure(self.eng, st, st.env, ct_globals(ct), True, TRUE, lineno)
                        self.eng.oblig(st, 'ghost', 'assert:%s' % src[7:].strip()[:48], p.truthy(p.ev(node)), lineno)
                    continue
                if src.startswith('cut '):
                    # assert / havoc / assume: every incoming path proves the cut formula;
                    # execution continues once, from the most general state satisfying it.
                    node = ast.parse(src[4:].strip(), mode='eval').body
                    new = []
                    for st in sts:
                        p = Pure(self.eng, st, st.env, ct_globals(ct), True, TRUE, lineno)
                        self.eng.oblig(st, 'cut', 'cut@%s' % text, p.truthy(p.ev(node)), lineno)
                        ck = (key, src)
                        if ck in frame.cuts_done:
                            continue
                        frame.cuts_done.add(ck)
                        s2 = State()
                        s2.entry = st.entry
                        s2.pc = list(st.pc[:frame.nreq])
                        s2.trace = ['cut@L%s' % lineno]
                        s2.ghostcount = dict(st.ghostcount)
                        for n, v in st.env.items():
                            if n.startswith('g_') or (n in st.entry and v is st.entry[n]):
                                s2.env[n] = v
                            else:
                                s2.env[n] = havoc_like(v, n)
                        p2 = Pure(self.eng, s2, s2.env, ct_globals(ct), True, TRUE, lineno)
                        s2.assume(p2.truthy(p2.ev(node)))
                        new.append(s2)
                    sts = new
                    continue
                node = ast.parse(src).body[0]
                for st in sts:
                    p = Pure(self.eng, st, st.env, ct_globals(ct), True, TRUE, lineno)
                    if isinstance(node, ast.Assign):
                        st.env[node.targets[0].id] = p.ev(node.value)
                    else:
                        v = p.ev(node.value)
                        st.assume(p.truthy(v))
        return sts

    def st_Pass(self, s, st, frame):
        yield st, NEXT, None

    def st_Global(self, s, st, frame):
        yield st, NEXT, None

    st_Nonlocal = st_Global

    def st_Import(self, s, st, frame):
        for a in s.names:
            nm = (a.asname or a.name).split('.')[0]
            try:
                import importlib
                st.env[nm] = ConstV(importlib.import_module(a.name if a.asname else a.name.split('.')[0]))
            except Exception:
                st.env[nm] = UnkV('module %s' % a.name)
        yield st, NEXT, None

    def st_ImportFrom(self, s, st, frame):
        import importlib
        pkg = frame.glob.get('__package__') or frame.glob.get('__name__', '').rpartition('.')[0]
        try:
            mod = importlib.import_module('.' * s.level + (s.module or ''), pkg) if s.level else \
                importlib.import_module(s.module)
        except Exception:
            mod = None
        for a in s.names:
            nm = a.asname or a.name
            if mod is not None and hasattr(mod, a.name):
                st.env[nm] = lift(getattr(mod, a.name))
            else:
                st.env[nm] = UnkV('import %s' % a.name)
        yield st, NEXT, None

    def st_FunctionDef(self, s, st, frame):
        st.env[s.name] = FuncV(s, st.env, s.name)
        yield st, NEXT, None

    def st_ClassDef(self, s, st, frame):
        st.env[s.name] = UnkV('class %s' % s.name)
        yield st, NEXT, None

    def st_Delete(self, s, st, frame):
        yield st, NEXT, None

    def st_Expr(self, s, st, frame):
        if isinstance(s.value, ast.Constant):
            yield st, NEXT, None
            return
        for st1, v in self.eval(s.value, st, frame):
            if isinstance(v, ExcV):
                yield st1, RAISE, v
            else:
                yield st1, NEXT, None

    def st_Assign(self, s, st, frame):
        for st1, v in self.eval(s.value, st, frame):
            if isinstance(v, ExcV):
                yield st1, RAISE, v
                continue
            ok = True
            for t in s.targets:
                self.assign(t, v, st1, frame, s.lineno)
            yield st1, NEXT, None

    def st_AnnAssign(self, s, st, frame):
        if s.value is None:
            yield st, NEXT, None
            return
        for st1, v in self.eval(s.value, st, frame):
            if isinstance(v, ExcV):
                yield st1, RAISE, v
                continue
            self.assign(s.target, v, st1, frame, s.lineno)
            yield st1, NEXT, None

    def st_AugAssign(self, s, st, frame):
        for st1, v in self.eval(s.value, st, frame):
            if isinstance(v, ExcV):
                yield st1, RAISE, v
                continue
            p = self.pure(st1, frame, s.lineno)
            if isinstance(s.target, ast.Name):
                cur = p.lookup(s.target.id)
            else:
                load = ast.copy_location(_as_load(s.target), s.target)
                cur = p.ev(load)
            nv = p.binop(s.op, cur, v)
            self.assign(s.target, nv, st1, frame, s.lineno)
            yield st1, NEXT, None

    def assign(self, target, v, st, frame, lineno):
        if isinstance(target, ast.Name):
            st.env[target.id] = v
            return
        if isinstance(target, (ast.Tuple, ast.List)):
            p = self.pure(st, frame, lineno)
            items = p.iter_items(v)
            if items is None and isinstance(v, IteV):
                # split lazily: component-wise ite when both sides are tuples of right length
                ia, ib = p.iter_items(v.a), p.iter_items(v.b)
                if ia is not None and ib is not None and len(ia) == len(ib):
                    items = [p.ite(v.c, x, y) for x, y in zip(ia, ib)]
            if items is None or len(items) != len(target.elts) or \
                    any(isinstance(t, ast.Starred) for t in target.elts):
                if not isinstance(v, UnkV) and not self.eng.tolerant:
                    self.eng.note('havoc: cannot unpack (line %s)' % lineno)
                for t in target.elts:
                    self.assign(t.value if isinstance(t, ast.Starred) else t, UnkV('unpack'), st, frame, lineno)
                return
            for t, x in zip(target.elts, items):
                self.assign(t, x, st, frame, lineno)
            return
        if isinstance(target, ast.Attribute):
            h = getattr(self.eng, 'on_setattr', None)
            if h is not None and h(self, target, v, st, frame, lineno):
                return
            p = self.pure(st, frame, lineno)
            base = p.ev(target.value)
            if isinstance(base, ObjV):
                st.heap[(base.oid, target.attr)] = v
                return
            if not self.eng.tolerant:
                self.eng.note('unmodelled attribute store .%s (line %s)' % (target.attr, lineno))
            return
        if isinstance(target, ast.Subscript):
            h = getattr(self.eng, 'on_setitem', None)
            if h is not None and h(self, target, v, st, frame, lineno):
                return
            # store into a local list of known length with concrete index
            if isinstance(target.value, ast.Name) and target.value.id in st.env:
                base = st.env[target.value.id]
                p = self.pure(st, frame, lineno)
                if isinstance(base, TupV) and base.kind == 'list' and not isinstance(target.slice, ast.Slice):
                    idx = p.ev(target.slice)
                    if is_conc_int(idx) and -len(base.items) <= conc_int(idx) < len(base.items):
                        items = list(base.items)
                        items[conc_int(idx)] = v
                        st.env[target.value.id] = TupV(items, 'list')
                        return
                st.env[target.value.id] = UnkV('mutated container')
                return
            if not self.eng.tolerant:
                self.eng.note('unmodelled subscript store (line %s)' % lineno)
            return

    def havoc_names(self, names, st):
        for n in names:
            old = st.env.get(n)
            st.env[n] = havoc_like(old, n)

    # ---- control flow
    def branch(self, st, c, lineno):
        """yields (state, taken: bool)"""
        eng = self.eng
        c = simp(c)
        if z3.is_true(c):
            yield st, True
            return
        if z3.is_false(c):
            yield st, False
            return
        ft = eng.feasible(st, c)
        ff = eng.feasible(st, z3.Not(c))
        if ft and ff:
            s2 = st.fork()
            st.assume(c)
            st.trace.append('L%s:T' % lineno)
            yield st, True
            s2.assume(z3.Not(c))
            s2.trace.append('L%s:F' % lineno)
            yield s2, False
        elif ft:
            st.assume(c)
            yield st, True
        elif ff:
            st.assume(z3.Not(c))
            yield st, False
        # else: path already infeasible -> dropped

    def st_If(self, s, st, frame):
        for st1, e in self.hoist(s.test, st, frame, TRUE):
            if e is not None:
                yield st1, RAISE, e
                continue
            p = self.pure(st1, frame, s.lineno)
            c = p.cond(s.test)
            for st2, taken in self.branch(st1, c, s.lineno):
                yield from self.block(s.body if taken else s.orelse, st2, frame)

    def st_Return(self, s, st, frame):
        if s.value is None:
            yield st, RET, ConstV(None)
            return
        for st1, v in self.eval(s.value, st, frame):
            if isinstance(v, ExcV):
                yield st1, RAISE, v
            else:
                st1.trace.append('L%s:return' % s.lineno)
                yield st1, RET, v

    def st_Raise(self, s, st, frame):
        if s.exc is None:
            yield st, RAISE, ExcV('reraise')
            return
        if isinstance(s.exc, ast.Call) and isinstance(s.exc.func, ast.Name):
            # raise SomeError("message" % values): the message is not evaluated (formatting is
            # outside the modelled subset and cannot change which exception is raised)
            p = self.pure(st, frame, s.lineno)
            cls = p.ev(s.exc.func)
            if isinstance(cls, ConstV) and isinstance(cls.obj, type) and issubclass(cls.obj, BaseException):
                st.trace.append('L%s:raise' % s.lineno)
                yield st, RAISE, ExcV(cls.obj.__name__, 'raise at line %s' % s.lineno)
                return
        for st1, v in self.eval(s.exc, st, frame):
            if isinstance(v, ExcV):
                yield st1, RAISE, v
                continue
            st1.trace.append('L%s:raise' % s.lineno)
            yield st1, RAISE, ExcV(exc_name_of(v), 'raise at line %s' % s.lineno)

    def st_Assert(self, s, st, frame):
        for st1, e in self.hoist(s.test, st, frame, TRUE):
            if e is not None:
                yield st1, RAISE, e
                continue
            p = self.pure(st1, frame, s.lineno)
            c = p.truthy(p.ev(s.test))
            for st2, taken in self.branch(st1, c, s.lineno):
                if taken:
                    yield st2, NEXT, None
                else:
                    yield st2, RAISE, ExcV('AssertionError', 'assert at line %s' % s.lineno)

    def st_Break(self, s, st, frame):
        yield st, BRK, None

    def st_Continue(self, s, st, frame):
        yield st, CONT, None

    def st_Try(self, s, st, frame):
        def run_finally(st1, sig, val):
            if not s.finalbody:
                yield st1, sig, val
                return
            for st2, sig2, val2 in self.block(s.finalbody, st1, frame):
                if sig2 == NEXT:
                    yield st2, sig, val
                else:
                    yield st2, sig2, val2     # finally overrides

        body_outs = self.block(s.body, st, frame)
        merger = getattr(self.eng, 'merge_key', None)
        if merger is not None:
            # tolerant analyses: outcomes of the try body that agree on the tracked values and
            # on the kind of exit are joined before handlers / finally run
            groups, order = {}, []
            for st1, sig, val in body_outs:
                k = (sig, val.name() if isinstance(val, ExcV) else None, merger(st1))
                if k in groups:
                    groups[k] = (merge_states(groups[k][0], st1), sig,
                                 val if sig == RAISE else UnkV('merged return value'))
                else:
                    groups[k] = (st1, sig, val)
                    order.append(k)
            body_outs = [groups[k] for k in order]
        for st1, sig, val in body_outs:
            if sig == RAISE and s.handlers:
                handled_all = False
                for st2, sig2, val2 in self.dispatch_handlers(s, st1, val, frame):
                    yield from run_finally(st2, sig2, val2)
            elif sig == NEXT and s.orelse:
                for st2, sig2, val2 in self.block(s.orelse, st1, frame):
                    yield from run_finally(st2, sig2, val2)
            else:
                yield from run_finally(st1, sig, val)

    def dispatch_handlers(self, s, st, exc, frame):
        """an exception reaches the handlers of try statement s"""
        ename = exc.name()
        remaining = st
        for h in s.handlers:
            m = handler_matches(h, ename, frame, self, remaining)
            if m == 'no':
                continue
            target = remaining if m == 'yes' else remaining.fork()
            if h.name:
                target.env[h.name] = UnkV('exception object')
            target.trace.append('L%s:except' % h.lineno)
            saved = frame.cur_exc
            frame.cur_exc = exc
            for out in self.block(h.body, target, frame):
                st2, sig2, val2 = out
                if sig2 == RAISE and val2.name() == 'reraise':
                    val2 = exc
                yield st2, sig2, val2
            frame.cur_exc = saved
            if m == 'yes':
                return
        yield remaining, RAISE, exc

    def st_With(self, s, st, frame):
        h = getattr(self.eng, 'on_with', None)
        if h is not None:
            yield from h(self, s, st, frame)
            return
        # generic: evaluate context expressions, bind targets to unknown, run body
        items = list(s.items)

        def go(i, st0):
            if i >= len(items):
                yield from self.block(s.body, st0, frame)
                return
            for st1, v in self.eval(items[i].context_expr, st0, frame):
                if isinstance(v, ExcV):
                    yield st1, RAISE, v
                    continue
                if items[i].optional_vars is not None:
                    self.assign(items[i].optional_vars, UnkV('with target'), st1, frame, s.lineno)
                yield from go(i + 1, st1)
        yield from go(0, st)

    # ---- loops
    def loop_contract(self, s, frame):
        ct = frame.contract
        if ct is None or frame.fi is None:
            return None
        try:
            k = frame.fi.loop_nodes.index(s)
        except ValueError:
            return None
        lc = ct.loops.get(k)
        if lc is not None:
            frame.loops_used.add(k)
        return lc

    def st_While(self, s, st, frame):
        yield from self.loop(s, st, frame, is_for=False)

    def st_For(self, s, st, frame):
        # known-length iteration: unroll
        for st1, itv in self.eval(s.iter, st, frame):
            if isinstance(itv, ExcV):
                yield st1, RAISE, itv
                continue
            p = self.pure(st1, frame, s.lineno)
            items = p.iter_items(itv)
            if items is not None and len(items) <= 16 and self.loop_contract(s, frame) is None:
                yield from self.unroll(s, items, 0, st1, frame)
            else:
                yield from self.loop(s, st1, frame, is_for=True, itv=itv)

    def unroll(self, s, items, i, st, frame):
        if i >= len(items):
            yield from self.block(s.orelse, st, frame)
            return
        self.assign(s.target, items[i], st, frame, s.lineno)
        for st1, sig, val in self.block(s.body, st, frame):
            if sig in (NEXT, CONT):
                yield from self.unroll(s, items, i + 1, st1, frame)
            elif sig == BRK:
                yield st1, NEXT, None
            else:
                yield st1, sig, val

    def loop(self, s, st, frame, is_for, itv=None):
        eng = self.eng
        lc = self.loop_contract(s, frame)
        names = sorted(assigned_names(s.body) | (assigned_names_target(s.target) if is_for else set()))
        pre = {n: st.env.get(n) for n in names}
        lname = 'loop@L%s' % s.lineno

        def inv_env(cur):
            env = dict(cur.env)
            for n, v in st_entry_env.items():
                env[n + '_in'] = v
            return env

        st_entry_env = dict(st.env)
        inv = lc.get('invariant') if lc else None
        dec = lc.get('decreases') if lc else None
        if inv is not None:
            p = Pure(eng, st, inv_env(st), ct_globals(frame.contract), True, TRUE, s.lineno)
            r = p.inline_spec(inv, [], {}, extra_env=pick_env(inv, inv_env(st)))
            eng.oblig(st, 'loop', '%s.init' % lname, p.truthy(r), s.lineno)
        # arbitrary iteration: havoc what the body assigns
        self.havoc_names(names, st)
        if hasattr(eng, 'on_loop_havoc'):
            st.loop_pre = pre                      # values of the assigned names before the loop (for engine hooks)
            eng.on_loop_havoc(self, s, st, frame)
        if inv is not None:
            p = Pure(eng, st, inv_env(st), ct_globals(frame.contract), True, TRUE, s.lineno)
            r = p.inline_spec(inv, [], {}, extra_env=pick_env(inv, inv_env(st)))
            st.assume(p.truthy(r))
        if is_for:
            # one arbitrary iteration, or exit
            exit_st = st.fork()
            exit_st.trace.append('L%s:for-exit' % s.lineno)
            body_st = st
            body_st.trace.append('L%s:for-iter' % s.lineno)
            if isinstance(itv, ConstV) and isinstance(itv.obj, RangeV):
                self.assign(s.target, IntV(fresh_int('i')), body_st, frame, s.lineno)
            else:
                self.assign(s.target, UnkV('loop item'), body_st, frame, s.lineno)
            branches = [(body_st, True), (exit_st, False)]
        else:
            branches = []
            for st1, e in self.hoist(s.test, st, frame, TRUE):
                if e is not None:
                    yield st1, RAISE, e
                    continue
                p = self.pure(st1, frame, s.lineno)
                c = p.cond(s.test)
                for st2, taken in self.branch(st1, c, s.lineno):
                    branches.append((st2, taken))
        for st2, taken in branches:
            if not taken:
                yield from self.block(s.orelse, st2, frame)
                continue
            if dec is not None:
                p = Pure(eng, st2, inv_env(st2), ct_globals(frame.contract), True, TRUE, s.lineno)
                d0 = int_term(p.inline_spec(dec, [], {}, extra_env=pick_env(dec, inv_env(st2))))
            for st3, sig, val in self.block(s.body, st2, frame):
                if sig in (NEXT, CONT):
                    if inv is not None:
                        p = Pure(eng, st3, inv_env(st3), ct_globals(frame.contract), True, TRUE, s.lineno)
                        r = p.inline_spec(inv, [], {}, extra_env=pick_env(inv, inv_env(st3)))
                        eng.oblig(st3, 'loop', '%s.preserved' % lname, p.truthy(r), s.lineno)
                    if dec is not None:
                        p = Pure(eng, st3, inv_env(st3), ct_globals(frame.contract), True, TRUE, s.lineno)
                        d1 = int_term(p.inline_spec(dec, [], {}, extra_env=pick_env(dec, inv_env(st3))))
                        eng.oblig(st3, 'termination', '%s.decreases' % lname,
                                  z3.And(d0 >= 0, d1 < d0), s.lineno)
                    if hasattr(eng, 'on_loop_back'):
                        eng.on_loop_back(self, s, st3, frame)
                    # path ends here (covered by the invariant)
                elif sig == BRK:
                    yield st3, NEXT, None
                else:
                    yield st3, sig, val


def is_uconst_term(t):
    return z3.is_const(t) and t.decl().kind() == z3.Z3_OP_UNINTERPRETED


def subst_val(v, t, c):
    if isinstance(v, IntV):
        return IntV(simp(z3.substitute(v.t, (t, c))))
    if isinstance(v, BoolV):
        return BoolV(simp(z3.substitute(v.t, (t, c))))
    if isinstance(v, TupV):
        return TupV([subst_val(x, t, c) for x in v.items], v.kind)
    return v


def merge_states(a, b):
    """join of two states that agree on the tracked values: common path-condition prefix,
    untracked variables that differ become unknown"""
    n = 0
    for x, y in zip(a.pc, b.pc):
        if x.get_id() != y.get_id():
            break
        n += 1
    a.pc = a.pc[:n]
    for k in list(a.env.keys()):
        va, vb = a.env[k], b.env.get(k)
        if va is vb:
            continue
        ta, tb = int_term(va) if va is not None else None, int_term(vb) if vb is not None else None
        if ta is not None and tb is not None and ta.get_id() == tb.get_id():
            continue
        if isinstance(va, FuncV) and isinstance(vb, FuncV) and va.node is vb.node:
            continue
        mv = getattr(merge_states, 'merge_val', None)
        if mv is not None:
            j = mv(va, vb)
            if j is not None:
                a.env[k] = j
                continue
        a.env[k] = UnkV('merged %s' % k)
    for k in b.env:
        if k not in a.env:
            a.env[k] = UnkV('merged %s' % k)
    a.trace = a.trace[:max(0, len(a.trace) - 1)] + ['merge']
    a.calls = {}
    return a


class ExcInstance(object):
    def __init__(self, cls):
        self.cls = cls


def exc_name_of(v):
    if isinstance(v, ConstV):
        o = v.obj
        if isinstance(o, ExcInstance):
            return o.cls.__name__
        if isinstance(o, type):
            return o.__name__
        if isinstance(o, BaseException):
            return type(o).__name__
    return 'UnknownException'


def handler_matches(h, ename, frame, px, st):
    """'yes' / 'no' / 'maybe'"""
    if h.type is None:
        return 'yes'
    p = px.pure(st, frame, h.lineno)
    tv = p.ev(h.type)
    classes = []
    if isinstance(tv, ConstV) and isinstance(tv.obj, type):
        classes = [tv.obj]
    elif isinstance(tv, TupV) and all(isinstance(x, ConstV) and isinstance(x.obj, type) for x in tv.items):
        classes = [x.obj for x in tv.items]
    elif isinstance(tv, ConstV) and isinstance(tv.obj, tuple):
        classes = list(tv.obj)
    else:
        return 'maybe'
    if ename in ('UnknownException', 'reraise'):
        if any(c in (Exception, BaseException) for c in classes):
            return 'yes' if ename == 'UnknownException' and BaseException in classes else 'maybe'
        return 'maybe'
    ecls = resolve_exc(ename, frame)
    if ecls is None:
        return 'maybe'
    return 'yes' if any(issubclass(ecls, c) for c in classes) else 'no'


def resolve_exc(name, frame):
    if hasattr(builtins, name) and isinstance(getattr(builtins, name), type):
        return getattr(builtins, name)
    o = frame.glob.get(name)
    if isinstance(o, type):
        return o
    try:
        import mpmath.libmp as lm
        o = getattr(lm, name, None)
        if isinstance(o, type):
            return o
    except Exception:
        pass
    return None


def stmt_head(s):
    """first line of the statement's canonical text (ast.unparse) -- the ghost anchor"""
    try:
        return ast.unparse(s).split('\n')[0].strip()
    except Exception:
        return '<%s>' % type(s).__name__


def _as_load(node):
    import copy
    n = copy.copy(node)
    n.ctx = ast.Load()
    return n


def assigned_names_target(t):
    out = set()
    for n in ast.walk(t):
        if isinstance(n, ast.Name):
            out.add(n.id)
    return out


def assigned_names(stmts):
    out = set()
    for s in stmts:
        for n in ast.walk(s):
            if isinstance(n, ast.Name) and isinstance(n.ctx, (ast.Store, ast.Del)):
                out.add(n.id)
            elif isinstance(n, (ast.FunctionDef, ast.ClassDef)):
                out.add(n.name)
            elif isinstance(n, (ast.Import, ast.ImportFrom)):
                for a in n.names:
                    out.add((a.asname or a.name).split('.')[0])
            elif isinstance(n, (ast.Subscript, ast.Attribute)) and isinstance(n.ctx, ast.Store):
                b = n.value
                while isinstance(b, (ast.Subscript, ast.Attribute)):
                    b = b.value
                if isinstance(b, ast.Name):
                    out.add(b.id)
            elif isinstance(n, ast.Call) and isinstance(n.func, ast.Attribute) and \
                    isinstance(n.func.value, ast.Name) and n.func.attr in (
                        'append', 'extend', 'pop', 'insert', 'remove', 'sort', 'reverse', 'update',
                        'clear', 'setdefault', 'add'):
                out.add(n.func.value.id)
    return out


def havoc_like(old, name):
    if isinstance(old, (IntV,)):
        return IntV(fresh_int(name))
    if isinstance(old, BoolV):
        return BoolV(fresh_bool(name))
    if isinstance(old, TupV) and old.kind == 'tuple' and all(isinstance(x, (IntV, BoolV, TupV)) for x in old.items):
        return TupV([havoc_like(x, '%s_%d' % (name, i)) for i, x in enumerate(old.items)])
    return UnkV('havoc %s' % name)


def describe_callee(fv, node):
    try:
        return ast.unparse(node.func)
    except Exception:
        return repr(fv)


def pick_env(fn, env):
    """bind the parameters of a contract function by *name* from env"""
    sig = inspect.signature(fn)
    out = {}
    for k in sig.parameters:
        if k in env and env[k] is not None:
            out[k] = env[k]
        else:
            out[k] = UnkV('unbound contract name %s' % k)
    return out


def ct_globals(ct):
    if ct is not None and ct.requires is not None:
        return ct.requires.__globals__
    if ct is not None and ct.ensures:
        return ct.ensures[0][1].__globals__
    from . import spec
    return vars(spec)


class Frame(object):
    def __init__(self, glob, closure, contract, fi=None):
        self.glob = glob
        self.closure = closure
        self.contract = contract
        self.fi = fi
        self.cur_exc = None
        self.loops_used = set()
        self.ghost_used = set()
        self.cuts_done = set()
        self.nreq = 0


_fi_cache = {}


def get_funcinfo(fn):
    k = id(fn)
    if k not in _fi_cache:
        fi = FuncInfo(fn)
        fi.glob_frame = lambda fi=fi: Frame(fi.globals, None, C.REGISTRY.get(id(fi.fn)), fi)
        _fi_cache[k] = fi
    return _fi_cache[k]

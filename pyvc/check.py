"""vcheck: decide one property on the current /repo tree.

  ./vcheck <Cxx> [--tier quick|thorough]      exit 0 held / 1 VIOLATION / 2 UNDECIDED / 3 crash
  ./vcheck --replay <path>                    re-run a recorded counterexample on the real code
  ./vcheck --list

All obligations come from /repo's current source (re-parsed here) and the sidecar contracts.
"""
import argparse
import json
import os
import sys
import time
import traceback

HERE = os.path.dirname(os.path.dirname(os.path.abspath(__file__)))
REPO = os.environ.get('PYVC_REPO', '/repo')
OUT = os.environ.get('PYVC_OUT', HERE)      # where evidence/ and replays/ are written


def setup_path():
    os.environ.setdefault('MPMATH_NOGMPY', '1')
    for p in (REPO, HERE):
        if p in sys.path:
            sys.path.remove(p)
        sys.path.insert(0, p)


ENCODING_ASSUMPTIONS = [
    'CPython int semantics: mathematical integers, floor // and % (sign of divisor), x >> n = floor(x / 2**n), negative shift counts raise',
    'left-to-right evaluation; callees are pure w.r.t. the caller\'s locals; module-level tables/constants are not rebound at run time (MPZ is int, BACKEND == "python")',
    'partial correctness (termination only where a decreases clause was discharged)',
    'z3 (and cvc5) are sound; pyvc encoder is correct (defended by mutation self-test and native replay of every counter-model)',
    'pow2/bitlen facts enter only as ground instances of the lemma library (pyvc/lemmas.py, pyvc/lemmalib.py); lemmas are checked exhaustively on small arguments on every run and proved in Lean where /verif/lemmas/*.lean exists',
]


def load_known_findings():
    p = os.path.join(HERE, 'known_findings.json')
    if not os.path.exists(p):
        return {'findings': [], 'fixed': []}
    with open(p) as f:
        return json.load(f)


def load_lock():
    p = os.path.join(HERE, 'obligations.lock.json')
    if not os.path.exists(p):
        return {}
    with open(p) as f:
        return json.load(f)


def ob_key(rec, unit):
    """stable identity of an obligation: function / kind:clause / case-split values
    (no line numbers, no path ids: harmless edits elsewhere in the file must not change it)"""
    enum = unit.get('enum') or {}
    es = ','.join('%s=%s' % (k, enum[k]) for k in sorted(enum))
    return '%s|%s:%s|%s' % (unit['target'], rec['kind'], rec['clause'], es)


def finding_matches(f, prop, key, rec):
    if f.get('property') != prop:
        return False
    if f.get('function') and not (key == f['function'] or key.startswith(f['function'] + '|')):
        return False
    if f.get('clause') and (':' + f['clause'] + '|') not in key and not key.split('|')[1].endswith(':' + f['clause']):
        return False
    return True


def write_replay(prop, unit, rec, status_note):
    d = os.path.join(OUT, 'replays', prop)
    os.makedirs(d, exist_ok=True)
    safe = ''.join(c if c.isalnum() or c in '._-' else '_' for c in (rec['name'] + '_' + json.dumps(unit.get('enum') or {}, sort_keys=True)))[:150]
    path = os.path.join(d, safe + '.json')
    data = {
        'property': prop,
        'obligation': rec['name'],
        'kind': rec['kind'],
        'clause': rec['clause'],
        'function': unit['target'],
        'file': unit.get('file'),
        'line': rec.get('line'),
        'case': unit.get('enum'),
        'path_trace': rec.get('trace'),
        'solver_status': rec.get('status'),
        'solver': rec.get('solver'),
        'solver_reason': rec.get('reason'),
        'failed_conjunct': rec.get('failed_conjunct'),
        'model_args': rec.get('model_args'),
        'replay': rec.get('replay'),
        'note': status_note,
    }
    with open(path, 'w') as f:
        json.dump(data, f, indent=1, default=repr)
    return os.path.relpath(path, HERE) if OUT == HERE else path


def do_replay(path):
    setup_path()
    import contracts
    contracts.load_all()
    from pyvc import contract as C
    from pyvc.verify import replay
    with open(path) as f:
        d = json.load(f)
    if d.get('engine') and d['engine'] != 'pyvc':
        from pyvc import engines
        return engines.replay(d)
    ct = C.BY_NAME.get(d['function'])
    if ct is None or not d.get('model_args'):
        print('replay: no concrete input recorded for %s (%s); solver output: %s' % (
            d.get('obligation'), d.get('note'), d.get('solver_reason') or d.get('failed_conjunct')))
        return 1
    args = {}
    for k, v in d['model_args'].items():
        args[k] = totuple(v)
    r = replay(ct, args, d['clause'], d['kind'])
    print(json.dumps(r, indent=1, default=repr))
    if r.get('status') == 'reproduced':
        print('VIOLATION property=%s replay=%s' % (d['property'], path))
        return 1
    return 0


def totuple(v):
    if isinstance(v, list):
        return tuple(totuple(x) for x in v)
    return v


def main(argv=None):
    ap = argparse.ArgumentParser()
    ap.add_argument('prop', nargs='?')
    ap.add_argument('--tier', default=os.environ.get('VERIF_TIER', 'quick'))
    ap.add_argument('--replay')
    ap.add_argument('--list', action='store_true')
    ap.add_argument('--relock', action='store_true', help='rewrite obligations.lock.json entry from this run')
    ap.add_argument('-v', '--verbose', action='store_true')
    a = ap.parse_args(argv)
    if a.replay:
        return do_replay(a.replay)
    setup_path()
    from pyvc import props
    if a.list:
        for p in sorted(props.PROPS):
            print(p, props.PROPS[p].get('title', ''))
        return 0
    if not a.prop:
        ap.print_usage()
        return 3
    try:
        return run_property(a.prop, a.tier if a.tier in ('quick', 'thorough') else 'quick', a)
    except SystemExit:
        raise
    except Exception:
        traceback.print_exc()
        print('CRASH property=%s (machinery error, not a verdict)' % a.prop)
        return 3


def run_property(prop, tier, a):
    t0 = time.time()
    seed = int(os.environ.get('VERIF_SEED', '0') or 0)
    import contracts
    contracts.load_all()
    from pyvc import contract as C
    from pyvc import props
    from pyvc.verify import enum_space
    from pyvc.driver import run_units
    from pyvc import lemmalib
    if prop not in props.PROPS:
        print('property %s is not claimed (see MANIFEST.json not_applicable)' % prop)
        return 3
    P = props.PROPS[prop]
    known = load_known_findings()
    lock = load_lock().get(prop, {})
    violations, undecided, known_hits, errors = [], [], [], []
    ob_records = []        # (key, rec, unit)
    by_backend = {'z3': 0, 'cvc5': 0, 'exhaustive-table': 0, 'engine': 0}
    solver_time = 0.0
    samples = []
    functions = []
    assumed = []
    notes = set()
    callees = set()
    ghost_use = {}
    # ---- exhaustively checked tables (complete proofs over finite domains)
    n_tab = 0
    for tm in list(C.TABLES.values()) + list(C.DICTS.values()):
        ok, where, n = tm.check_exhaustive()
        n_tab += 1
        by_backend['exhaustive-table'] += 1
        if not ok:
            errors.append('table model %s fails at %r' % (tm.target, where))
    # ---- lemma library self-check (bounded exhaustive; the lemmas are theorems)
    nl = lemmalib.selfcheck_lemmas()
    # ---- and their Lean 4 / Mathlib proofs (compiled in the background; cached by content hash)
    import threading
    from pyvc import leancheck
    lean_res = {}
    lean_thread = threading.Thread(target=lambda: lean_res.update(leancheck.check()))
    lean_thread.start()
    # ---- deductive units
    targets = props.targets_for(prop)
    units = []
    assumed_failures = []
    for t in targets:
        ct = C.BY_NAME[t]
        if ct.assumed:
            spot = ''
            if ct.search:
                # an assumed leaf is not verified, but its contract is spot-checked natively on an enumerated domain
                from pyvc import gens as _gens, bounded as _bounded
                sr = _bounded.run_bounded(ct, _gens.GENS[ct.search](seed, tier), max_fail=1, budget_s=20)
                spot = '; spot-checked natively on %d inputs' % sr['evaluations']
                if sr['failures']:
                    fl = sr['failures'][0]
                    rec = {'name': '%s/assumed:%s' % (t, fl['clause']), 'kind': 'ensures', 'clause': fl['clause'], 'status': 'sat',
                           'model_args': fl['args'], 'replay': {'status': 'reproduced', 'observed': fl['observed']}, 'line': None,
                           'solver': 'native-bounded'}
                    unit = {'target': t, 'enum': {}, 'file': None}
                    assumed_failures.append((ob_key(rec, unit), rec, unit))
            assumed.append('%s (assumed contract: %s%s)' % (t, (ct.note or (ct.func.__doc__ or '')).strip().split('\n')[0][:100], spot))
            continue
        if ct.no_verify:
            continue
        functions.append(t)
        for ea in enum_space(ct):
            units.append((t, ea))
    opts = {'cvc5': True, 'rlimit': int(os.environ.get('PYVC_RLIMIT', '60000000')), 'prop': prop}
    if tier == 'thorough':
        opts['rlimit'] = int(os.environ.get('PYVC_RLIMIT', '200000000'))
    # bounded stand-ins for declared gaps of these functions (never counted as proved)
    bjobs = []
    for t in targets:
        ct = C.BY_NAME[t]
        if ct.assumed:
            continue
        for gi, gap in enumerate(ct.gaps):
            cl_props = set()
            for name, fn, pr in ct.ensures:
                if name in gap['clauses']:
                    cl_props.update(pr)
            if prop in cl_props:
                bjobs.append(('bounded', (t, gi, seed, tier)))
    results = run_units(units, opts, verbose=a.verbose, extra_jobs=bjobs) if (units or bjobs) else []
    relevant = 0
    bounded_cov = []
    search_cache = {}
    # functions one of whose ghost anchors binds in no case: their proof hints were written for different code, so an
    # open obligation there is *undecided* (unless a failing input is found), never a lock-based violation
    _gall, _gused = {}, {}
    for r in results:
        if r.get('kind') == 'bounded' or r.get('crash'):
            continue
        _gall.setdefault(r['target'], set()).update(r.get('ghost_all', []))
        _gused.setdefault(r['target'], set()).update(r.get('ghost_used', []))
    anchor_missing = set(t for t in _gall if _gall[t] - _gused.get(t, set()))
    for r in results:
        if r.get('kind') == 'bounded':
            bounded_cov.append({k: r[k] for k in ('target', 'gap', 'gen', 'clauses', 'evaluations',
                                                  'distinct_nontrivial', 'wall_s', 'samples')})
            for fl in r.get('failures', []):
                rec = {'name': '%s/bounded:%s' % (r['target'], fl['clause']), 'kind': 'ensures',
                       'clause': fl['clause'], 'status': 'sat', 'model_args': fl['args'],
                       'replay': {'status': 'reproduced', 'observed': fl['observed']}, 'line': None,
                       'solver': 'native-bounded'}
                unit = {'target': r['target'], 'enum': {}, 'file': None}
                key = ob_key(rec, unit)
                kf = [f for f in known.get('findings', []) if finding_matches(f, prop, key, rec)]
                if kf:
                    known_hits.append((kf[0], key, rec))
                else:
                    path = write_replay(prop, unit, rec, 'bounded native check of the contract clause failed on the real function')
                    violations.append((key, rec, path, ''))
                break
            continue
        if r.get('crash'):
            errors.append('crash in %s %s: %s' % (r.get('target'), r.get('enum'), r['crash']))
            sys.stderr.write(r.get('traceback', ''))
            continue
        for e in r.get('errors', []):
            if e.startswith('contract-anchor-missing'):
                undecided.append(('%s %s' % (r['target'], r.get('enum')), e))
            else:
                errors.append('%s %s: %s' % (r['target'], r.get('enum'), e))
        for n in r.get('notes', []):
            notes.add('%s: %s' % (r['target'].split('.')[-1], n))
        for cal in r.get('callees', []):
            callees.add(cal)
        gu = ghost_use.setdefault(r['target'], [set(), set()])
        gu[0].update(r.get('ghost_all', []))
        gu[1].update(r.get('ghost_used', []))
        for rec in r['obligations']:
            if rec['kind'] == 'ensures' and (not rec.get('props') or prop not in rec['props']):
                continue
            relevant += 1
            key = ob_key(rec, r)
            ob_records.append((key, rec, r))
            solver_time += rec.get('time_s') or 0
            if rec['status'] == 'proved':
                by_backend['cvc5' if rec.get('solver') == 'cvc5' else 'z3'] += 1
                if len(samples) < 6 and rec['kind'] in ('ensures', 'cut'):
                    samples.append({'obligation': rec['name'], 'case': r.get('enum'), 'status': 'proved',
                                    'solver': rec.get('solver'), 'time_s': rec.get('time_s'),
                                    'path': rec.get('trace')})
                continue
            kf = [f for f in known.get('findings', []) if finding_matches(f, prop, key, rec)]
            rep = rec.get('replay') or {}
            if rec['status'] == 'sat' and rep.get('status') == 'reproduced':
                if kf:
                    known_hits.append((kf[0], key, rec))
                else:
                    path = write_replay(prop, r, rec, 'counter-model reproduced on the real function')
                    violations.append((key, rec, path, ''))
            else:
                # sat-but-not-reproduced, or unknown: bounded native search for a real failing
                # input of this clause (generator declared by the contract)
                found = native_search(C, r, rec, seed, tier, search_cache)
                if found is not None and not kf:
                    rec = dict(rec)
                    rec['model_args'] = found['args']
                    rec['replay'] = {'status': 'reproduced', 'observed': found['observed'],
                                     'found_by': 'bounded native search after solver said %s' % rec['status']}
                    path = write_replay(prop, r, rec, 'solver left the obligation open; bounded native search found a failing input on the real function')
                    violations.append((key, rec, path, ''))
                    continue
                if kf:
                    known_hits.append((kf[0], key, rec))
                elif key in lock and r['target'] not in anchor_missing:
                    path = write_replay(prop, r, rec, 'obligation discharged on the committed tree and fails now; no failing input found')
                    violations.append((key, rec, path, ' no-failing-input-found'))
                elif key in lock:
                    undecided.append((key, '%s; a ghost anchor of this function no longer binds (the code under the proof hints '
                                           'changed), no failing input found' % rec['status']))
                else:
                    undecided.append((key, '%s (%s)' % (rec['status'], rec.get('reason') or rep.get('status'))))
    for key, rec, unit in assumed_failures:
        kf = [f for f in known.get('findings', []) if finding_matches(f, prop, key, rec)]
        if kf:
            known_hits.append((kf[0], key, rec))
        else:
            path = write_replay(prop, unit, rec, 'the assumed contract of a leaf function fails natively on the real function')
            violations.append((key, rec, path, ''))
    # a ghost anchor that no case of its function reached means the contract no longer binds
    for tgt, (allg, used) in ghost_use.items():
        for g in sorted(allg - used):
            undecided.append(('%s|anchor' % tgt, 'contract-anchor-missing: ghost %s' % g))
    # ---- extra engines (precframe, refinement pass, bounded tiers ...)
    extra_cov = {}
    for eng_name in P.get('engines', []):
        from pyvc import engines
        er = engines.run(eng_name, prop, tier, seed, known, lock)
        extra_cov[eng_name] = er.get('coverage', {})
        relevant += er.get('obligations', 0)
        by_backend['engine'] += er.get('discharged', 0)
        for v in er.get('violations', []):
            violations.append(v)
        for u in er.get('undecided', []):
            undecided.append(u)
        for k in er.get('known_hits', []):
            known_hits.append(k)
        for e in er.get('errors', []):
            errors.append(e)
        samples.extend(er.get('samples', [])[:4])
        assumed.extend(er.get('assumptions', []))
        functions.extend(er.get('functions', []))
        solver_time += er.get('solver_time_s', 0)
        for k, rec, r in er.get('records', []):
            ob_records.append((k, rec, r))
    discharged = sum(1 for k, rec, r in ob_records if rec['status'] == 'proved')
    total = len(ob_records)
    # ---- lock: every obligation discharged on the committed tree must still exist
    keys_now = {}
    for k, rec, r in ob_records:
        keys_now[k] = keys_now.get(k, 0) + 1
    missing = [k for k in lock if k not in keys_now]
    if a.relock:
        lk = load_lock()
        lk[prop] = {k: keys_now[k] for k in sorted(keys_now)
                    if all(rec['status'] == 'proved' for kk, rec, r in ob_records if kk == k)}
        with open(os.path.join(HERE, 'obligations.lock.json'), 'w') as f:
            json.dump(lk, f, indent=0, sort_keys=True)
        missing = []
    for k in missing:
        undecided.append((k, 'obligation present in obligations.lock.json was not generated from the current tree'))
    n_eval_extra = sum(v.get('evaluations', 0) for v in extra_cov.values())
    if total == 0 and not bounded_cov and not n_eval_extra:
        errors.append('zero obligations generated')
    lean_thread.join()
    if lean_res.get('status') == 'failed':
        errors.append('a Lean proof of the lemma library does not check: %s' % json.dumps(lean_res.get('files'))[:300])
    # ---- report
    out = []
    for kf, key, rec in known_hits:
        out.append('KNOWN-FINDING: property=%s %s [%s] %s' % (prop, kf.get('id', ''), key, kf.get('what', '')))
    seen_kf = set()
    out2 = []
    for line in out:
        if line not in seen_kf:
            seen_kf.add(line)
            out2.append(line)
    for line in out2:
        print(line)
    for key, rec, path, suffix in violations:
        print('failed obligation: %s  (%s)' % (rec.get('name', key), (rec.get('replay') or {}).get('observed', rec.get('status'))))
        print('VIOLATION property=%s replay=%s%s' % (prop, path, suffix))
    for key, why in undecided:
        print('UNDECIDED obligation=%s %s' % (key, why))
    for e in errors:
        print('ERROR %s' % e)
    level = P.get('level', 'proof')
    if level == 'proof' and (known_hits or bounded_cov):
        level = 'other'     # not every obligation is discharged deductively on this run
    cov = {
        'obligations': total,
        'discharged': discharged + len(known_hits) * 0,
        'checker_cmd': './vcheck %s --tier %s' % (prop, tier),
        'trusted_base': sorted(set(assumed)) + ['pyvc VC generator (/verif/pyvc)', 'z3 %s' % z3_version(),
                                                 'lemma library: %d hint lemmas, bounded exhaustive self-check %d evaluations; Lean 4 / Mathlib proofs of the '
                                                 'lemma statements (lemmas/*.lean, %s theorems): %s; not proved in Lean: the ipow recurrences'
                                                 % (len(lemmalib.HINT_LEMMAS), nl, lean_res.get('theorems', '?'), lean_res.get('status', 'not run'))],
        'samples': samples[:10] or [{'note': 'no obligation samples'}],
        'functions_under_contract': sorted(set(functions)),
        'by_backend': by_backend,
        'solver_time_s': round(solver_time, 2),
        'tables_checked_exhaustively': n_tab,
        'known_findings_hit': [k[0].get('id') for k in known_hits],
        'undecided': len(undecided),
        'havoc_notes': sorted(notes)[:40],
        'extraction': 'function bodies re-parsed from %s on this run with ast; docstrings/comments dropped; back-end bindings read from the imported module (MPMATH_NOGMPY=1)' % REPO,
        'explanation': P.get('explanation', '') or ('every obligation generated from the current tree was discharged by the back ends listed in by_backend' if not (known_hits or bounded_cov) else 'mixed: see known_findings_hit / bounded'),
        'bounded': bounded_cov,
        'callee_contracts_relied_on': [
            '%s (%s)' % (cal, 'assumed call contract of a modelled free variable' if cal not in C.BY_NAME else
                         'assumed leaf' if C.BY_NAME[cal].assumed else
                         'proved under %s' % '/'.join(C.BY_NAME[cal].all_props))
            for cal in sorted(callees)],
    }
    cov.update(P.get('coverage_extra', {}))
    for k, v in extra_cov.items():
        cov['engine_' + k] = v
    if level in ('exploration', 'fault_enumeration', 'other'):
        ev = sum(v.get('evaluations', 0) for v in extra_cov.values()) + sum(b['evaluations'] for b in bounded_cov)
        dn = sum(v.get('distinct_nontrivial', 0) for v in extra_cov.values()) + sum(b['distinct_nontrivial'] for b in bounded_cov)
        if ev:
            cov['evaluations'] = ev
            cov['distinct_nontrivial'] = dn
            cov['rule'] = '; '.join([v.get('rule', '') for v in extra_cov.values() if v.get('rule')] + [
                'bounded: inputs enumerated by pyvc/gens.py:%s (grids of boundary mantissas x exponents x precisions x rounding modes, VERIF_SEED for the sampled part); an input counts as non-trivial/distinct if it satisfies the contract precondition and differs as an argument tuple' % b['gen'] for b in bounded_cov])
            if bounded_cov and not cov.get('samples'):
                cov['samples'] = bounded_cov[0].get('samples', [])
    evidence = {
        'property_id': prop, 'tier': tier, 'seed': seed, 'level': level, 'coverage': cov,
        'assumptions': ENCODING_ASSUMPTIONS + P.get('assumptions', []),
        'wall_s': round(time.time() - t0, 2),
        'violations': len(violations),
    }
    os.makedirs(os.path.join(OUT, 'evidence'), exist_ok=True)
    with open(os.path.join(OUT, 'evidence', prop + '.json'), 'w') as f:
        json.dump(evidence, f, indent=1, default=repr)
    print('%s: %d obligations, %d discharged, %d known findings, %d violations, %d undecided, %.1fs' % (
        prop, total, discharged, len(known_hits), len(violations), len(undecided), time.time() - t0))
    if errors:
        return 3
    if violations:
        return 1
    if undecided:
        return 2
    return 0


def native_search(C, unit, rec, seed, tier, cache):
    ct = C.BY_NAME.get(unit.get('target'))
    if ct is None or not ct.search or rec.get('kind') not in ('ensures', 'exception', 'precondition'):
        return None
    ck = (ct.target, rec.get('clause') if rec.get('kind') != 'precondition' else '<any clause>')
    if ck in cache:
        return cache[ck]
    from pyvc import gens, bounded
    # an open precondition of a callee is searched as "any clause of this function fails on the real code"
    clause = [rec['clause']] if rec['kind'] == 'ensures' else None
    res = bounded.run_bounded(ct, gens.GENS[ct.search](seed, tier), clauses=clause, max_fail=1, budget_s=60)
    out = res['failures'][0] if res['failures'] else None
    if out is not None and rec['kind'] == 'exception' and out.get('clause') != 'exception':
        out = None
    cache[ck] = out
    return out


def z3_version():
    try:
        import z3
        return z3.get_version_string()
    except Exception:
        return '?'


if __name__ == '__main__':
    sys.exit(main())

"""Cache-protocol contracts (C33): data-flow clauses on the real code, decided for all inputs.

(K)  key determines value.  For a store  CACHE[key] = value  in function F: every *input* that the
     stored value depends on (parameters of F and the working precision) is also an input of the key.
     Dependencies are computed by backward slicing over all assignments of F (flow-insensitive
     union, so an over-approximation); a call depends on its arguments and on its receiver; a call
     made while the working precision has been set to an expression e depends on the inputs of e.
     A violated clause names the input that is missing from the key.
(I)  invalidation.  For a class with a cached derived attribute: every method that mutates the
     underlying private data also resets the cache attribute (methods documented as unsafe are listed).
(S)  same key at the read site: the test `key in CACHE` / the load `CACHE[key]` uses the same key
     expression as the store.
"""
import ast
import os
import re

PREC_INPUT = '<working precision>'


def find_function(tree, qual):
    parts = qual.split('.')
    node = tree
    for p in parts:
        nxt = None
        for ch in ast.iter_child_nodes(node):
            if isinstance(ch, (ast.FunctionDef, ast.ClassDef)) and ch.name == p:
                nxt = ch
                break
        if nxt is None:
            # nested function inside a function body
            for ch in ast.walk(node):
                if isinstance(ch, (ast.FunctionDef, ast.ClassDef)) and ch.name == p and ch is not node:
                    nxt = ch
                    break
        if nxt is None:
            return None
        node = nxt
    return node


class Slicer(object):
    def __init__(self, fn, ignore=(), prec_attrs=('prec', 'dps'), context=True):
        self.fn = fn
        self.context = context      # False for libmp: pure functions that never read a context precision
        self.params = set(a.arg for a in fn.args.args + fn.args.kwonlyargs)
        if fn.args.vararg:
            self.params.add(fn.args.vararg.arg)
        if fn.args.kwarg:
            self.params.add(fn.args.kwarg.arg)
        self.ignore = set(ignore)
        self.assigns = {}       # name -> list of (line, value expr)
        self.prec_sets = []     # (line, expression) assigned to X.prec / X.dps inside the function
        self.at = 10 ** 9       # program point (line) for which dependencies are computed
        self.stop = set()
        for n in ast.walk(fn):
            if isinstance(n, ast.Assign):
                for t in n.targets:
                    self._bind(t, n.value)
                    if isinstance(t, ast.Attribute) and t.attr in prec_attrs:
                        self.prec_sets.append((n.lineno, n.value))
            elif isinstance(n, ast.AugAssign):
                self._bind(n.target, n.value)
                self._bind(n.target, n.target)
                if isinstance(n.target, ast.Attribute) and n.target.attr in prec_attrs:
                    self.prec_sets.append((n.lineno, ast.BinOp(left=ast.Name(id=PREC_INPUT, ctx=ast.Load()), op=ast.Add(), right=n.value)))
            elif isinstance(n, (ast.For, ast.comprehension)):
                self._bind(n.target, n.iter)
            elif isinstance(n, ast.With):
                for it in n.items:
                    if it.optional_vars is not None:
                        self._bind(it.optional_vars, it.context_expr)

    def _bind(self, target, value):
        if isinstance(target, ast.Name):
            self.assigns.setdefault(target.id, []).append((getattr(value, 'lineno', 0), value))
        elif isinstance(target, (ast.Tuple, ast.List)):
            for t in target.elts:
                self._bind(t, value)
        elif isinstance(target, ast.Subscript) and isinstance(target.value, ast.Name):
            self.assigns.setdefault(target.value.id, []).append((getattr(value, 'lineno', 0), value))
        elif isinstance(target, ast.Starred):
            self._bind(target.value, value)

    def deps(self, expr, seen=None):
        """set of inputs (parameter names, PREC_INPUT) the expression may depend on; names in
        self.stop (the components of the cache key) are atoms: they are reported as themselves and
        not expanded"""
        seen = seen if seen is not None else set()
        out = set()
        for n in ast.walk(expr):
            if isinstance(n, ast.Name):
                if n.id in self.stop:
                    out.add(n.id)
                    continue
                if n.id == PREC_INPUT:
                    out.add(PREC_INPUT)
                elif n.id in self.ignore:
                    continue
                elif n.id in self.params and n.id not in self.assigns:
                    out.add(n.id)
                elif n.id in self.assigns or n.id in self.params:
                    if n.id in self.params:
                        out.add(n.id)
                    if n.id in seen:
                        continue
                    seen.add(n.id)
                    for ln, v in self.before(self.assigns.get(n.id, [])):
                        out |= self.deps(v, seen)
            elif isinstance(n, ast.Attribute) and n.attr in ('prec', 'dps', '_prec', '_dps') and isinstance(n.ctx, ast.Load):
                out |= self.prec_deps(seen)
            elif isinstance(n, ast.Call):
                # any computation may read the working precision
                if self.context and (not isinstance(n.func, ast.Name) or n.func.id not in (
                        'int', 'len', 'tuple', 'abs', 'min', 'max', 'range', 'xrange', 'list', 'type', 'isinstance')):
                    out |= self.prec_deps(seen)
        return out

    def prec_deps(self, seen):
        """inputs of the working precision at an arbitrary point of F: if F sets the precision, the
        inputs of the expressions it sets it to; otherwise the caller's precision itself"""
        prior = [(ln, e) for ln, e in self.prec_sets if ln <= self.at]
        if not prior:
            return {PREC_INPUT}
        ln, e = max(prior, key=lambda z: z[0])       # the assignment textually nearest before the point
        return self.deps_noprec(e, seen)

    def before(self, lst):
        """assignments textually at or before the program point (all of them if none precedes it:
        loop-carried values)"""
        b = [(ln, v) for ln, v in lst if ln <= self.at]
        return b if b else lst

    def deps_noprec(self, expr, seen):
        out = set()
        for n in ast.walk(expr):
            if isinstance(n, ast.Name):
                if n.id in self.stop:
                    out.add(n.id)
                    continue
                if n.id == PREC_INPUT:
                    out.add(PREC_INPUT)
                elif n.id in self.ignore:
                    continue
                elif n.id in self.params:
                    out.add(n.id)
                if n.id in self.assigns and n.id not in seen:
                    seen.add(n.id)
                    for ln, v in self.before(self.assigns[n.id]):
                        out |= self.deps_noprec(v, seen)
            elif isinstance(n, ast.Attribute) and n.attr in ('prec', 'dps') and isinstance(n.ctx, ast.Load):
                out.add(PREC_INPUT)
        return out


def stores_to(fn, cache_pat):
    out = []
    for n in ast.walk(fn):
        if isinstance(n, ast.Assign):
            for t in n.targets:
                if isinstance(t, ast.Subscript) and re.search(cache_pat, ast.unparse(t.value)):
                    out.append((n, t, n.value))
    return out


def check_key_determines(repo, sp):
    path = os.path.join(repo, 'mpmath', sp['file'])
    tree = ast.parse(open(path).read())
    fn = find_function(tree, sp['function'])
    if fn is None:
        return {'status': 'anchor-missing', 'reason': 'function %s not found' % sp['function']}
    sl = Slicer(fn, ignore=sp.get('ignore', ()), context=not sp['file'].startswith('libmp/'))
    sts = stores_to(fn, sp['cache'])
    if not sts:
        return {'status': 'anchor-missing', 'reason': 'no store into %s' % sp['cache']}
    bad = []
    for n, t, v in sts:
        sl.at = n.lineno
        sl.stop = set()
        # key atoms: the names occurring in the key expression (a key that is a local name bound
        # to a tuple is opened one level)
        kexpr = t.slice
        atoms = set()
        if isinstance(kexpr, ast.Name) and kexpr.id in sl.assigns:
            cands = sl.before(sl.assigns[kexpr.id])
            # a name bound on several branches: the components common to every binding determine the key
            sets = [set(x.id for x in ast.walk(c[1]) if isinstance(x, ast.Name)) for c in cands]
            atoms = set.union(*sets) if sets else set()
            atoms.add(kexpr.id)
        else:
            atoms = set(x.id for x in ast.walk(kexpr) if isinstance(x, ast.Name))
        atoms |= set(sp.get('extra_key_atoms', ()))
        for a_, b_ in sp.get('equiv', {}).items():
            if b_ in atoms:
                atoms.add(a_)
        sl.stop = set(atoms)
        kd = set(atoms)
        vd = sl.deps(v)
        if sp.get('value_carries_prec'):
            vd = vd - {PREC_INPUT} - set(sp.get('prec_names', ()))   # the precision is stored with the value and re-checked on reads
        missing = sorted(vd - kd - set(sp.get('receiver', ('self', 'ctx', 'cls'))) - set(sp.get('ignore', ())))
        if missing:
            bad.append('line %d: `%s` depends on %s, which the key `%s` does not determine' % (
                n.lineno, ast.unparse(n)[:70], missing, ast.unparse(t.slice)))
    # same key at read sites
    keys = set(ast.unparse(t.slice) for n, t, v in sts)
    for n in ast.walk(fn):
        if isinstance(n, ast.Compare) and len(n.ops) == 1 and isinstance(n.ops[0], (ast.In, ast.NotIn)) and \
                re.search(sp['cache'], ast.unparse(n.comparators[0])):
            k = ast.unparse(n.left)
            k2 = k.strip('()')
            if not any(k == x or k2 == x.strip('()') for x in keys):
                resolved = False
                if isinstance(n.left, ast.Name) and n.left.id in sl.assigns:
                    if any(ast.unparse(v).strip('()') in [x.strip('()') for x in keys] or n.left.id in [x for x in keys]
                           for ln, v in sl.assigns[n.left.id]):
                        resolved = True
                if not resolved:
                    bad.append('line %d: membership test uses key `%s`, stores use %s' % (n.lineno, k, sorted(keys)))
    return {'status': 'proved' if not bad else 'violated', 'bad': bad, 'stores': len(sts)}


def check_invalidation(repo, sp):
    path = os.path.join(repo, 'mpmath', sp['file'])
    tree = ast.parse(open(path).read())
    cls = find_function(tree, sp['class'])
    if cls is None:
        return {'status': 'anchor-missing', 'reason': 'class %s not found' % sp['class']}
    bad = []
    n_mut = 0
    for m in cls.body:
        if not isinstance(m, ast.FunctionDef) or m.name in sp.get('exempt', ()):
            continue
        mutates = False
        for n in ast.walk(m):
            tgt = None
            if isinstance(n, (ast.Assign, ast.AugAssign, ast.Delete)):
                tg = n.targets if isinstance(n, (ast.Assign, ast.Delete)) else [n.target]
                for t in tg:
                    src = ast.unparse(t)
                    if any(re.match(r'self\.%s(\b|\[)' % re.escape(a), src) for a in sp['data']):
                        mutates = True
        if not mutates:
            continue
        n_mut += 1
        resets = any(isinstance(n, ast.Assign) and any(ast.unparse(t) == 'self.%s' % sp['cache_attr'] for t in n.targets)
                     and isinstance(n.value, ast.Constant) and n.value.value is None for n in ast.walk(m))
        if not resets:
            bad.append('method %s (line %d) mutates %s without resetting self.%s' % (m.name, m.lineno, sp['data'], sp['cache_attr']))
    if n_mut == 0:
        return {'status': 'anchor-missing', 'reason': 'no mutating method found'}
    return {'status': 'proved' if not bad else 'violated', 'bad': bad, 'mutators': n_mut}


SPECS = [
    dict(kind='key', name='QuadratureRule.get_nodes: standard nodes are determined by (degree, prec)',
         file='calculus/quadrature.py', function='QuadratureRule.get_nodes', cache=r'standard_cache', ignore=['verbose']),
    dict(kind='key', name='QuadratureRule.get_nodes: transformed nodes are determined by (a, b, degree, prec)',
         file='calculus/quadrature.py', function='QuadratureRule.get_nodes', cache=r'transformed_cache', ignore=['verbose']),
    dict(kind='key', name='memoize: the cached value is stored with its precision under a key built from all arguments',
         file='ctx_base.py', function='StandardBaseContext.memoize.f_cached', cache=r'f_cache', value_carries_prec=True,
         receiver=('self', 'ctx', 'cls', 'f')),
    dict(kind='key', name='log_int_fixed: log(n) is cached per n together with its precision',
         file='libmp/libelefun.py', function='log_int_fixed', cache=r'log_int_cache', value_carries_prec=True,
         prec_names=['prec', 'wp'], ignore=['ln2']),      # ln2: optional precomputed ln2_fixed(wp) passed by the caller
    dict(kind='key', name='log_taylor_cached: the table entry is determined by (n, cached_prec)',
         file='libmp/libelefun.py', function='log_taylor_cached', cache=r'log_taylor_cache'),
    dict(kind='key', name='atan_taylor: the table entry is determined by (n, prec2)',
         file='libmp/libelefun.py', function='atan_taylor_get_cached', cache=r'atan_taylor_cache'),
    dict(kind='key', name='cos_sin_basecase: the table entry is determined by n (fixed table precision)',
         file='libmp/libelefun.py', function='cos_sin_basecase', cache=r'cos_sin_cache', equiv={'t': 'n'}),   # n = int(t)
    dict(kind='inv', name='matrix: every method that mutates the private data resets the cached LU decomposition',
         file='matrices/matrices.py', **{'class': '_matrix'}, data=['__data', '__rows', '__cols'], cache_attr='_LU',
         exempt=['__init__', '__set_element']),
]


def check_same_protocol(repo, sp):
    """(P) the value handed out does not depend on whether it was just computed or found in the
    cache: every `return <expr>` of the cached expression is under the guard `guard`, all other
    returns of it go through `wrap(...)`."""
    path = os.path.join(repo, 'mpmath', sp['file'])
    tree = ast.parse(open(path).read())
    fn = find_function(tree, sp['function'])
    if fn is None:
        return {'status': 'anchor-missing', 'reason': 'function not found'}
    bad = []
    n = 0

    def visit(stmts, guarded):
        nonlocal n
        for s in stmts:
            if isinstance(s, ast.Return) and s.value is not None:
                src = ast.unparse(s.value)
                if src == sp['expr']:
                    n += 1
                    if not guarded:
                        bad.append('line %d: `return %s` outside `if %s:` (the cached path rounds with %s)' % (
                            s.lineno, src, sp['guard'], sp['wrap']))
                elif sp['expr'] in src:
                    n += 1
                    if not src.startswith(sp['wrap'] + '('):
                        bad.append('line %d: `return %s` does not go through %s' % (s.lineno, src, sp['wrap']))
            elif isinstance(s, ast.If):
                g = guarded or ast.unparse(s.test) == sp['guard']
                visit(s.body, g)
                visit(s.orelse, guarded)
            elif isinstance(s, (ast.While, ast.For, ast.With, ast.Try)):
                visit(s.body, guarded)
                visit(getattr(s, 'orelse', []), guarded)
                visit(getattr(s, 'finalbody', []), guarded)
    visit(fn.body, False)
    if n == 0:
        return {'status': 'anchor-missing', 'reason': 'no return of %s' % sp['expr']}
    return {'status': 'proved' if not bad else 'violated', 'bad': bad, 'returns': n}


SPECS.append(dict(kind='proto', name='mpf_bernoulli: a freshly computed number is handed out exactly like a cached one',
                  file='libmp/gammazeta.py', function='mpf_bernoulli', expr='numbers[n]', guard='not rnd', wrap='mpf_pos'))

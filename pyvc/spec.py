"""Spec vocabulary (DESIGN.md section 4).  One text, two meanings: every function here is
ordinary Python (native reading, used for replay / bounded checks) and is also evaluated
symbolically by pyvc's merging evaluator from its *source* (z3 reading).  Primitives carry
a ``_pyvc_prim`` tag and are mapped to uninterpreted z3 functions constrained by the lemma
library (lemmas.py).

Only integer reasoning is used: a finite value is (-1)**sign * M * 2**E with integers M >= 0, E.
"""

# ----------------------------------------------------------------------------- primitives


def pow2(k):
    return 1 << k


pow2._pyvc_prim = 'pow2'


def bitlen(x):
    return int(x).bit_length()


bitlen._pyvc_prim = 'bitlen'


def ipow(b, n):
    return b ** n


ipow._pyvc_prim = 'ipow'


def implies(a, b):
    return (not a) or b


implies._pyvc_prim = 'implies'


def iff(a, b):
    return bool(a) == bool(b)


iff._pyvc_prim = 'iff'


def is_int(x):
    return isinstance(x, int)


is_int._pyvc_prim = 'is_int'


def fdiv(a, b):
    """floor division with b > 0 (spec side)."""
    return a // b


fdiv._pyvc_prim = 'fdiv'


def fmod(a, b):
    return a % b


fmod._pyvc_prim = 'fmod'


def cfix(p):
    """floor(c * 2**p) for a fixed positive real constant c (abstract in proofs; the native
    reading instantiates c = 2/3 so that the hint lemmas about cfix can be self-checked)"""
    return (2 << p) // 3 if p >= 0 else 0


cfix._pyvc_prim = 'cfix'


def shr(x, n):
    """x >> n for n >= 0 (floor division by 2**n)."""
    return x >> n


shr._pyvc_prim = 'shr'


def lowbits(x, n):
    """x mod 2**n for n >= 0."""
    return x & ((1 << n) - 1)


lowbits._pyvc_prim = 'lowbits'

# ----------------------------------------------------------------------------- constants

fzero = (0, 0, 0, 0)
fnan = (0, 0, -123, -1)
finf = (0, 0, -456, -2)
fninf = (1, 0, -789, -3)
fone = (0, 1, 0, 1)
fnone = (1, 1, 0, 1)

RND5 = ('n', 'f', 'c', 'u', 'd')


def tz8(i):
    """trailing zero bits of i for 0 < i < 256; 0 for i == 0 (what libintmath.trailtable holds)."""
    if i % 2 == 1:
        return 0
    if i % 4 == 2:
        return 1
    if i % 8 == 4:
        return 2
    if i % 16 == 8:
        return 3
    if i % 32 == 16:
        return 4
    if i % 64 == 32:
        return 5
    if i % 128 == 64:
        return 6
    if i % 256 == 128:
        return 7
    return 0


def hmask(n):
    """libmpf.h_mask_small[n] / h_mask_big()[n]: (1 << (n-1)) - 1 for n >= 1, 0 for n == 0."""
    if n >= 1:
        return pow2(n - 1) - 1
    return 0


# ----------------------------------------------------------------------------- well-formedness

def special(x):
    return x == fzero or x == finf or x == fninf or x == fnan


def is_nonfinite(x):
    return x == finf or x == fninf or x == fnan


def finite_nz(x):
    """canonical finite non-zero raw mpf"""
    return ((x[0] == 0 or x[0] == 1) and x[1] >= 1 and x[1] % 2 == 1
            and x[3] == bitlen(x[1]))


def WF(x):
    return special(x) or finite_nz(x)


def WFfin(x):
    """canonical and finite (zero allowed)"""
    return x == fzero or finite_nz(x)


def WFp(x, p):
    """canonical with at most p mantissa bits (DESIGN WF<=p)"""
    return special(x) or (finite_nz(x) and x[3] <= p)


def sgn_of(x):
    """mathematical sign (-1, 0, 1) of a WF raw mpf; nan -> 0"""
    if x[1] != 0:
        return 1 - 2 * x[0]
    if x == finf:
        return 1
    if x == fninf:
        return -1
    return 0


# ----------------------------------------------------------------------------- rounding spec
# taken from the property text: "the exact result when it fits in p bits and otherwise the
# adjacent p-bit value selected by the rounding mode".

def rnd_trunc(rnd, sign):
    """does mode `rnd` round the *magnitude* of a number of sign `sign` toward zero?"""
    return rnd == 'd' or (rnd == 'f' and sign == 0) or (rnd == 'c' and sign == 1)


def rnd_away(rnd, sign):
    return rnd == 'u' or (rnd == 'f' and sign == 1) or (rnd == 'c' and sign == 0)


def rounded_ok(R, M, n, rnd, sign):
    """the integer R is M / 2**n (M >= 0, n >= 1) rounded as mode `rnd` prescribes for a
    number of sign `sign`: toward zero, away from zero, or to nearest with ties to even.
    Order-theoretic statement (no division): P = 2**n."""
    P = pow2(n)
    if rnd_trunc(rnd, sign):
        return R * P <= M and M < R * P + P
    if rnd_away(rnd, sign):
        return R * P - P < M and M <= R * P
    d = 2 * M - 2 * R * P
    return -P <= d and d <= P and implies(d == P or d == -P, R % 2 == 0)


def repr_of(x, sign, R, E):
    """raw mpf x is the canonical representation of (-1)**sign * R * 2**E  (R >= 1)."""
    return (x[0] == sign and x[1] >= 1 and x[1] % 2 == 1 and x[3] == bitlen(x[1])
            and x[2] >= E and x[1] * pow2(x[2] - E) == R)


def CRound(x, sign, M, E, prec, rnd):
    """x is the correctly rounded prec-bit value (mode rnd) of (-1)**sign * M * 2**E,
    M >= 0, prec >= 1; canonical.  If M fits in prec bits the value is exact; otherwise,
    with n = bitlen(M) - prec, x = (-1)**sign * R * 2**(E+n) where R is M / 2**n rounded."""
    if M == 0:
        return x == fzero
    if bitlen(M) <= prec:
        return repr_of(x, sign, M, E)
    n = bitlen(M) - prec
    return (x[0] == sign and x[1] >= 1 and x[1] % 2 == 1 and x[3] == bitlen(x[1])
            and x[2] >= E + n and rounded_ok(x[1] * pow2(x[2] - E - n), M, n, rnd, sign))


def Exact(x, sign, M, E):
    """x is the canonical exact representation of (-1)**sign * M * 2**E, M >= 0."""
    if M == 0:
        return x == fzero
    return repr_of(x, sign, M, E)


def CRoundOrExact(x, sign, M, E, prec, rnd):
    """prec == 0 means exact (libmpf convention)."""
    if prec == 0:
        return Exact(x, sign, M, E)
    return CRound(x, sign, M, E, prec, rnd)


def same_value(x, y):
    """two canonical raw mpfs denote the same number iff they are the same tuple
    (C01 uniqueness)"""
    return x == y


# ----------------------------------------------------------------------------- native helpers (not symbolic)

def val(x):
    """exact rational value of a finite raw mpf (native reading only)."""
    from fractions import Fraction
    sign, man, exp, bc = x
    v = Fraction(man) * (Fraction(2) ** exp)
    return -v if sign else v


val._pyvc_native_only = True


# ----------------------------------------------------------------------------- operation specs

def RoundOf(result, x, prec, rnd):
    """result is the canonical x rounded to prec bits (prec == 0: unchanged); non-finite
    values pass through"""
    if is_nonfinite(x):
        return result == x
    if prec == 0:
        return result == x
    return CRound(result, x[0], x[1], x[2], prec, rnd)


def neg_of(t):
    """exact negation of a canonical value (zero and nan are their own negations)"""
    if t == finf:
        return fninf
    if t == fninf:
        return finf
    if t[1] == 0:
        return t
    return (1 - t[0], t[1], t[2], t[3])


def abs_of(t):
    if t == fninf:
        return finf
    if t[1] == 0:
        return t
    return (0, t[1], t[2], t[3])


def SumSpec(result, s, t, prec, rnd):
    """result == round_prec(s + t) for canonical s, t over the extended reals (+ nan);
    prec == 0 means the exact sum"""
    if s == fnan or t == fnan:
        return result == fnan
    if s == finf or s == fninf:
        if (t == finf or t == fninf) and t != s:
            return result == fnan
        return result == s
    if t == finf or t == fninf:
        return result == t
    if s[1] == 0:
        return RoundOf(result, t, prec, rnd)
    if t[1] == 0:
        return RoundOf(result, s, prec, rnd)
    E = min(s[2], t[2])
    S = (1 - 2 * s[0]) * s[1] * pow2(s[2] - E) + (1 - 2 * t[0]) * t[1] * pow2(t[2] - E)
    if S >= 0:
        return CRoundOrExact(result, 0, S, E, prec, rnd)
    return CRoundOrExact(result, 1, -S, E, prec, rnd)


def xor01(a, b):
    if a == b:
        return 0
    return 1


def ProdSpec(result, s, t, prec, rnd):
    """result == round_prec(s * t); 0 * inf and nan give nan; prec == 0 exact"""
    if s == fnan or t == fnan:
        return result == fnan
    if is_nonfinite(s) or is_nonfinite(t):
        if s == fzero or t == fzero:
            return result == fnan
        if sgn_of(s) * sgn_of(t) > 0:
            return result == finf
        return result == fninf
    if s[1] == 0 or t[1] == 0:
        return result == fzero
    return CRoundOrExact(result, xor01(s[0], t[0]), s[1] * t[1], s[2] + t[2], prec, rnd)


def MulIntSpec(result, s, n, prec, rnd):
    """result == round_prec(s * n) for canonical s and a Python int n (prec >= 1)"""
    if s == fnan:
        return result == fnan
    if s == finf or s == fninf:
        if n == 0:
            return result == fnan
        if (n > 0) == (s == finf):
            return result == finf
        return result == fninf
    if s[1] == 0 or n == 0:
        return result == fzero
    if n < 0:
        return CRound(result, 1 - s[0], s[1] * (-n), s[2], prec, rnd)
    return CRound(result, s[0], s[1] * n, s[2], prec, rnd)


def FarApart(s, t, prec):
    """the sub-case of addition that libmpf handles by perturbation: both finite non-zero,
    exponents more than 100 apart, rounding requested, and the tops of the operands more
    than max(prec, bits of the larger operand)+4 bits apart"""
    if s[1] == 0 or t[1] == 0 or prec == 0:
        return False
    d = s[2] - t[2]
    if d > 100:
        return s[3] + s[2] - t[3] - t[2] > max(prec, s[3]) + 4
    if d < -100:
        return t[3] + t[2] - s[3] - s[2] > max(prec, t[3]) + 4
    return False


# ----------------------------------------------------------------------------- order and hash

def val_lt(s, t):
    """s < t for canonical non-nan values over the extended reals (exact comparison of
    (-1)**sign * man * 2**exp)"""
    if s == finf or t == fninf:
        return False
    if s == fninf or t == finf:
        return True
    E = min(s[2], t[2])
    return (1 - 2 * s[0]) * s[1] * pow2(s[2] - E) < (1 - 2 * t[0]) * t[1] * pow2(t[2] - E)


def CmpSpec(result, s, t):
    """three-way comparison of canonical non-nan values"""
    if val_lt(s, t):
        return result == -1
    if val_lt(t, s):
        return result == 1
    return result == 0


HASH_P = 2305843009213693951      # 2**61 - 1  (sys.hash_info.modulus on 64-bit CPython)


def HashSpec(result, s):
    """CPython's numeric hash of the exact value of a canonical raw mpf (including the -1 -> -2
    adjustment): inf/nan as sys.hash_info says,
    otherwise sign * (man * 2**exp mod P) with 2**exp reduced through 2**61 == 1 (mod P)."""
    if s == fnan:
        return result == 0
    if s == finf:
        return result == 314159
    if s == fninf:
        return result == -314159
    h = ((s[1] % HASH_P) * pow2(s[2] % 61)) % HASH_P
    if s[0] == 1:
        if h == 1:
            return result == -2          # CPython never returns -1 from a hash
        return result == -h
    return result == h


def ComplexHashSpec(result, hre, him):
    """CPython's complex hash from the hashes of the parts: hre + 1000003*him wrapped to a
    signed 64-bit word, -1 replaced by -2"""
    u = (hre + 1000003 * him) % 18446744073709551616
    if u >= 9223372036854775808:
        if u - 18446744073709551616 == -1:
            return result == -2
        return result == u - 18446744073709551616
    return result == u


# ----------------------------------------------------------------------------- division

def rounded_okQ(R, N, D, P, rnd, sign):
    """the integer R is (N/D)/P rounded as mode `rnd` prescribes for a number of sign `sign`
    (N, D, P positive integers; order-theoretic, cross-multiplied)"""
    if rnd_trunc(rnd, sign):
        return R * P * D <= N and N < (R * P + P) * D
    if rnd_away(rnd, sign):
        return (R * P - P) * D < N and N <= R * P * D
    d = 2 * N - 2 * R * P * D
    return -(P * D) <= d and d <= P * D and implies(d == P * D or d == -(P * D), R % 2 == 0)


def CRoundQ(x, sign, N, D, E, prec, rnd):
    """x is the correctly rounded prec-bit value of (-1)**sign * (N/D) * 2**E for integers
    N, D >= 1 scaled so that floor(N/D) has more than prec bits (so the binade of N/D is
    bitlen(floor(N/D)) and the unit in the last place is 2**(bitlen - prec) >= 2)."""
    q = fdiv(N, D)
    n = bitlen(q) - prec
    return (x[0] == sign and x[1] >= 1 and x[1] % 2 == 1 and x[3] == bitlen(x[1])
            and x[2] >= E + n
            and rounded_okQ(x[1] * pow2(x[2] - E - n), N, D, pow2(n), rnd, sign))


def div_extra(sbc, tbc, prec):
    if prec - sbc + tbc + 5 < 5:
        return 5
    return prec - sbc + tbc + 5


def QuotSpec(result, s, t, prec, rnd):
    """result == round_prec(s / t) for canonical s, t with t != 0 (prec >= 1):
    nan propagates, inf/inf = nan, x/inf = 0, inf/x = +-inf, 0/x = 0"""
    if s == fnan or t == fnan:
        return result == fnan
    if is_nonfinite(s):
        if is_nonfinite(t):
            return result == fnan
        if sgn_of(s) * sgn_of(t) > 0:
            return result == finf
        return result == fninf
    if is_nonfinite(t):
        return result == fzero
    if s[1] == 0:
        return result == fzero
    if t[1] == 1:
        return CRound(result, xor01(s[0], t[0]), s[1], s[2] - t[2], prec, rnd)
    g = div_extra(s[3], t[3], prec)
    return CRoundQ(result, xor01(s[0], t[0]), s[1] * pow2(g), t[1], s[2] - t[2] - g, prec, rnd)


def RDivIntSpec(result, n, t, prec, rnd):
    """result == round_prec(n / t) for a Python int n and canonical t != 0"""
    if t == fnan:
        return result == fnan
    if is_nonfinite(t):
        return result == fzero
    if n == 0:
        return result == fzero
    sg = xor01(1 if n < 0 else 0, t[0])
    a = -n if n < 0 else n
    g = prec + t[3] + 5
    return CRoundQ(result, sg, a * pow2(g), t[1], -t[2] - g, prec, rnd)


# ----------------------------------------------------------------------------- integer parts (C06)

def RoundIntSpec(result, s, rnd):
    """result is the canonical value of round(s) to an integer in mode rnd (non-finite values and
    values with non-negative exponent, which are integers already, pass through)"""
    if is_nonfinite(s) or s[2] >= 0:
        return result == s
    n = -s[2]
    if result == fzero:
        return rounded_ok(0, s[1], n, rnd, s[0])
    return (finite_nz(result) and result[0] == s[0] and result[2] >= 0
            and rounded_ok(result[1] * pow2(result[2]), s[1], n, rnd, s[0]))


def FracSpec(result, s, prec, rnd):
    """result == round_prec(s - floor(s)) (prec == 0: exact); nan for non-finite s.  The exact
    fractional part of (-1)**sign * man * 2**exp with exp < 0 is (S mod 2**-exp) * 2**exp for the
    signed mantissa S (mathematical mod: non-negative)"""
    if is_nonfinite(s):
        return result == fnan
    if s[2] >= 0:
        return result == fzero
    r = lowbits((1 - 2 * s[0]) * s[1], -s[2])
    return CRoundOrExact(result, 0, r, s[2], prec, rnd)


def ToIntSpec(result, s, rnd):
    """result == round(s) as a Python int (rnd None means truncation toward zero)"""
    if s[2] >= 0:
        return result == (1 - 2 * s[0]) * s[1] * pow2(s[2])
    R = result if s[0] == 0 else -result
    return R >= 0 and rounded_ok(R, s[1], -s[2], 'd' if rnd is None else rnd, s[0])


def ModSpec(result, s, t, prec, rnd):
    """result == round_prec(s mod t), s mod t = s - t*floor(s/t) (sign of t), for finite s and
    finite non-zero t; nan for non-finite operands"""
    if is_nonfinite(s) or is_nonfinite(t):
        return result == fnan
    E = min(s[2], t[2])
    S = (1 - 2 * s[0]) * s[1] * pow2(s[2] - E)
    T = (1 - 2 * t[0]) * t[1] * pow2(t[2] - E)
    r = fmod(S, T)
    if r >= 0:
        return CRound(result, 0, r, E, prec, rnd)
    return CRound(result, 1, -r, E, prec, rnd)


# ----------------------------------------------------------------------------- complex (C04)

def WFc(z):
    return WF(z[0]) and WF(z[1])


def WFcfin(z):
    return WFfin(z[0]) and WFfin(z[1])


def bits_ok(x, prec):
    return prec == 0 or special(x) or x[3] <= prec


def exact_prod(s, t):
    """canonical exact product of two canonical finite values"""
    if s[1] == 0 or t[1] == 0:
        return fzero
    return (xor01(s[0], t[0]), s[1] * t[1], s[2] + t[2], bitlen(s[1] * t[1]))


def hash_value(s):
    """the integer h with HashSpec(h, s) (function form, for composition)"""
    if s == fnan:
        return 0
    if s == finf:
        return 314159
    if s == fninf:
        return -314159
    h = ((s[1] % HASH_P) * pow2(s[2] % 61)) % HASH_P
    if s[0] == 1:
        if h == 1:
            return -2
        return -h
    return h


def HashOfComplex(result, z):
    return ComplexHashSpec(result, hash_value(z[0]), hash_value(z[1]))


# ----------------------------------------------------------------------------- integer powers (C03)

def PowIntSpecial(result, s, n):
    """special values of s**n (n a Python int)"""
    if s == finf:
        if n > 0:
            return result == finf
        if n == 0:
            return result == fnan
        return result == fzero
    if s == fninf:
        if n > 0:
            if n % 2 == 1:
                return result == fninf
            return result == finf
        if n == 0:
            return result == fnan
        return result == fzero
    return result == fnan


def PowIntExact(result, s, n, prec, rnd):
    """s**n for finite s and n >= 0 whose exact value man**n * 2**(exp*n) is small enough for the
    code's exact path: the correctly rounded exact power (n == 0 gives 1, also for s == 0)"""
    if n == 0:
        return result == fone
    if s[1] == 0:
        return result == fzero
    if s[0] == 1 and n % 2 == 1:
        return CRound(result, 1, ipow(s[1], n), s[2] * n, prec, rnd)
    return CRound(result, 0, ipow(s[1], n), s[2] * n, prec, rnd)


def pow_small_case(s, n):
    """the inputs for which libmpf.mpf_pow_int computes the exact integer power first"""
    return n >= 0 and (n <= 2 or s[1] == 1 or s[1] == 0 or s[3] * n < 1000)


def PowIntDirected(result, s, n, rnd):
    """native-only oracle: a directed rounding of s**n is never on the wrong side of the exact
    value and nearest is within one unit in the last place"""
    from fractions import Fraction
    if s[1] == 0 or is_nonfinite(s) or is_nonfinite(result):
        return True
    x = val(s)
    exact = x ** n if n >= 0 else 1 / (x ** (-n))
    r = val(result) if result[1] != 0 else Fraction(0)
    if rnd == 'f':
        return r <= exact
    if rnd == 'c':
        return r >= exact
    if rnd == 'd':
        return abs(r) <= abs(exact)
    if rnd == 'u':
        return abs(r) >= abs(exact)
    if r == exact:
        return True
    ulp = Fraction(2) ** (result[2]) if result[1] != 0 else Fraction(0)
    return abs(r - exact) <= ulp


PowIntDirected._pyvc_native_only = True


# ----------------------------------------------------------------------------- intervals (C14 / C16)

def IV(s):
    """a valid raw interval: canonical non-nan endpoints with lower <= upper"""
    return WF(s[0]) and WF(s[1]) and s[0] != fnan and s[1] != fnan and not val_lt(s[1], s[0])


def val_le(s, t):
    return not val_lt(t, s)


# ----------------------------------------------------------------------------- real-order view (C14)
# rval(x) is the exact real value of a finite canonical raw mpf.  In proofs it is an uninterpreted
# function of (sign, man, exp); what is known about it is val_link (its sign follows the sign field)
# and what the real-order contracts of the mpf operations say (contracts/realview.py).

def rval(x):
    return val(x)


rval._pyvc_prim = 'rval'


def val_link(x):
    """definition of the value of a canonical finite number, as far as its sign goes"""
    if x == fzero:
        return rval(x) == 0
    if finite_nz(x):
        return rval(x) > 0 if x[0] == 0 else rval(x) < 0
    return True


def WFr(x):
    """canonical, not nan, value linked"""
    return WF(x) and x != fnan and val_link(x)


def ext_le(x, y):
    """x <= y for canonical non-nan extended reals"""
    if x == fninf or y == finf:
        return True
    if x == finf or y == fninf:
        return False
    return rval(x) <= rval(y)


def ext_lt(x, y):
    if x == finf or y == fninf:
        return False
    if x == fninf or y == finf:
        return True
    return rval(x) < rval(y)


def IVr(s):
    """a valid raw interval in the real-order view"""
    return WFr(s[0]) and WFr(s[1]) and ext_le(s[0], s[1])


def in_iv(v, s):
    """the real number v is a member of the raw interval s"""
    if s[0] == finf or s[1] == fninf:
        return False
    return (s[0] == fninf or rval(s[0]) <= v) and (s[1] == finf or v <= rval(s[1]))


def dir_ok(r, exact, prec, rnd):
    """order reading of a correctly rounded finite result r of the exact real value `exact`:
    exact when prec == 0 (libmpf convention), below / above for floor / ceiling"""
    if prec == 0:
        return r == exact
    if rnd == 'f':
        return r <= exact
    if rnd == 'c':
        return r >= exact
    return True


def r_fun(k, v):
    """the real function number k (0 exp, 1 log, 2 sqrt, 3 atan) at the real v: uninterpreted in proofs
    (only monotonicity is used, through lemma_r_fun_mono); floats natively"""
    import math
    return [math.exp, math.log, math.sqrt, math.atan][k](float(v))


r_fun._pyvc_prim = 'r_fun'


# ----------------------------------------------------------------------------- square root (C02 / C13)

def isqrt(x):
    """floor of the square root of a non-negative integer"""
    import math
    return math.isqrt(x)


isqrt._pyvc_prim = 'isqrt'


def sqrt_shift(prec, bc):
    """the (even) scaling exponent mpf_sqrt uses: at least 4 and such that the radicand has >= 2*prec+4 bits"""
    sh = 4 if 2 * prec - bc + 4 < 4 else 2 * prec - bc + 4
    return sh + sh % 2


def sq_ok(R, P, M, rnd):
    """the non-negative integer R*P is sqrt(M) rounded to a multiple of P as mode rnd prescribes for a positive
    number (floor/down: toward zero, ceiling/up: away, nearest-even) -- stated on squares, no square root"""
    if rnd == 'f' or rnd == 'd':
        return (R * P) * (R * P) <= M and M < (R * P + P) * (R * P + P)
    if rnd == 'c' or rnd == 'u':
        return R * P - P >= 0 and (R * P - P) * (R * P - P) < M and M <= (R * P) * (R * P)
    lo = 2 * R * P - P
    hi = 2 * R * P + P
    return (lo >= 0 and lo * lo <= 4 * M and 4 * M <= hi * hi
            and implies(lo * lo == 4 * M or hi * hi == 4 * M, R % 2 == 0))


def SqrtSpec(result, s, prec, rnd):
    """result == round_prec(sqrt(s)) for canonical s >= 0 (zero, +inf and nan are returned unchanged)"""
    if s[1] == 0:
        return result == s
    if s[2] % 2 == 1:
        M0 = 2 * s[1]
        e0 = s[2] - 1
        b0 = s[3] + 1
    else:
        if s[1] == 1:
            return Exact(result, 0, 1, fdiv(s[2], 2))
        M0 = s[1]
        e0 = s[2]
        b0 = s[3]
    g = sqrt_shift(prec, b0)
    M = M0 * pow2(g)
    y = isqrt(M)
    n = bitlen(y) - prec
    E = fdiv(e0 - g, 2)
    return (result[0] == 0 and result[1] >= 1 and result[1] % 2 == 1 and result[3] == bitlen(result[1])
            and result[2] >= E + n and sq_ok(result[1] * pow2(result[2] - E - n), pow2(n), M, rnd))

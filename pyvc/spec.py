"""Spec vocabulary (DESIGN.md section 4).  One text, two meanings: every function here is
ordinary Python (native reading, used for replay / bounded checks) and is also evaluated
symbolically by pyvc's merging evaluator from its *source* (z3 reading).  Primitives carry
a ``_pyvc_prim`` tag and are mapped to uninterpreted z3 functions constrained by the lemma
library (lemmas.py).

Only integer reasoning is used: a finite value is (-1)**sign * M * 2**E with integers M >= 0, E.
"""

# ----------------------------------------------------------------------------- primitives


def pow2(k):
    return 1 << k


pow2._pyvc_prim = 'pow2'


def bitlen(x):
    return int(x).bit_length()


bitlen._pyvc_prim = 'bitlen'


def ipow(b, n):
    return b ** n


ipow._pyvc_prim = 'ipow'


def implies(a, b):
    return (not a) or b


implies._pyvc_prim = 'implies'


def iff(a, b):
    return bool(a) == bool(b)


iff._pyvc_prim = 'iff'


def is_int(x):
    return isinstance(x, int)


is_int._pyvc_prim = 'is_int'


def fdiv(a, b):
    """floor division with b > 0 (spec side)."""
    return a // b


fdiv._pyvc_prim = 'fdiv'


def fmod(a, b):
    return a % b


fmod._pyvc_prim = 'fmod'


def shr(x, n):
    """x >> n for n >= 0 (floor division by 2**n)."""
    return x >> n


shr._pyvc_prim = 'shr'


def lowbits(x, n):
    """x mod 2**n for n >= 0."""
    return x & ((1 << n) - 1)


lowbits._pyvc_prim = 'lowbits'

# ----------------------------------------------------------------------------- constants

fzero = (0, 0, 0, 0)
fnan = (0, 0, -123, -1)
finf = (0, 0, -456, -2)
fninf = (1, 0, -789, -3)
fone = (0, 1, 0, 1)
fnone = (1, 1, 0, 1)

RND5 = ('n', 'f', 'c', 'u', 'd')


def tz8(i):
    """trailing zero bits of i for 0 < i < 256; 0 for i == 0 (what libintmath.trailtable holds)."""
    if i % 2 == 1:
        return 0
    if i % 4 == 2:
        return 1
    if i % 8 == 4:
        return 2
    if i % 16 == 8:
        return 3
    if i % 32 == 16:
        return 4
    if i % 64 == 32:
        return 5
    if i % 128 == 64:
        return 6
    if i % 256 == 128:
        return 7
    return 0


def hmask(n):
    """libmpf.h_mask_small[n] / h_mask_big()[n]: (1 << (n-1)) - 1 for n >= 1, 0 for n == 0."""
    if n >= 1:
        return pow2(n - 1) - 1
    return 0


# ----------------------------------------------------------------------------- well-formedness

def special(x):
    return x == fzero or x == finf or x == fninf or x == fnan


def is_nonfinite(x):
    return x == finf or x == fninf or x == fnan


def finite_nz(x):
    """canonical finite non-zero raw mpf"""
    return ((x[0] == 0 or x[0] == 1) and x[1] >= 1 and x[1] % 2 == 1
            and x[3] == bitlen(x[1]))


def WF(x):
    return special(x) or finite_nz(x)


def WFfin(x):
    """canonical and finite (zero allowed)"""
    return x == fzero or finite_nz(x)


def WFp(x, p):
    """canonical with at most p mantissa bits (DESIGN WF<=p)"""
    return special(x) or (finite_nz(x) and x[3] <= p)


def sgn_of(x):
    """mathematical sign (-1, 0, 1) of a WF raw mpf; nan -> 0"""
    if x[1] != 0:
        return 1 - 2 * x[0]
    if x == finf:
        return 1
    if x == fninf:
        return -1
    return 0


# ----------------------------------------------------------------------------- rounding spec
# taken from the property text: "the exact result when it fits in p bits and otherwise the
# adjacent p-bit value selected by the rounding mode".

def rnd_trunc(rnd, sign):
    """does mode `rnd` round the *magnitude* of a number of sign `sign` toward zero?"""
    return rnd == 'd' or (rnd == 'f' and sign == 0) or (rnd == 'c' and sign == 1)


def rnd_away(rnd, sign):
    return rnd == 'u' or (rnd == 'f' and sign == 1) or (rnd == 'c' and sign == 0)


def rounded_ok(R, M, n, rnd, sign):
    """the integer R is M / 2**n (M >= 0, n >= 1) rounded as mode `rnd` prescribes for a
    number of sign `sign`: toward zero, away from zero, or to nearest with ties to even.
    Order-theoretic statement (no division): P = 2**n."""
    P = pow2(n)
    if rnd_trunc(rnd, sign):
        return R * P <= M and M < R * P + P
    if rnd_away(rnd, sign):
        return R * P - P < M and M <= R * P
    d = 2 * M - 2 * R * P
    return -P <= d and d <= P and implies(d == P or d == -P, R % 2 == 0)


def repr_of(x, sign, R, E):
    """raw mpf x is the canonical representation of (-1)**sign * R * 2**E  (R >= 1)."""
    return (x[0] == sign and x[1] >= 1 and x[1] % 2 == 1 and x[3] == bitlen(x[1])
            and x[2] >= E and x[1] * pow2(x[2] - E) == R)


def CRound(x, sign, M, E, prec, rnd):
    """x is the correctly rounded prec-bit value (mode rnd) of (-1)**sign * M * 2**E,
    M >= 0, prec >= 1; canonical.  If M fits in prec bits the value is exact; otherwise,
    with n = bitlen(M) - prec, x = (-1)**sign * R * 2**(E+n) where R is M / 2**n rounded."""
    if M == 0:
        return x == fzero
    if bitlen(M) <= prec:
        return repr_of(x, sign, M, E)
    n = bitlen(M) - prec
    return (x[0] == sign and x[1] >= 1 and x[1] % 2 == 1 and x[3] == bitlen(x[1])
            and x[2] >= E + n and rounded_ok(x[1] * pow2(x[2] - E - n), M, n, rnd, sign))


def Exact(x, sign, M, E):
    """x is the canonical exact representation of (-1)**sign * M * 2**E, M >= 0."""
    if M == 0:
        return x == fzero
    return repr_of(x, sign, M, E)


def CRoundOrExact(x, sign, M, E, prec, rnd):
    """prec == 0 means exact (libmpf convention)."""
    if prec == 0:
        return Exact(x, sign, M, E)
    return CRound(x, sign, M, E, prec, rnd)


def same_value(x, y):
    """two canonical raw mpfs denote the same number iff they are the same tuple
    (C01 uniqueness)"""
    return x == y


# ----------------------------------------------------------------------------- native helpers (not symbolic)

def val(x):
    """exact rational value of a finite raw mpf (native reading only)."""
    from fractions import Fraction
    sign, man, exp, bc = x
    v = Fraction(man) * (Fraction(2) ** exp)
    return -v if sign else v


val._pyvc_native_only = True


# ----------------------------------------------------------------------------- operation specs

def RoundOf(result, x, prec, rnd):
    """result is the canonical x rounded to prec bits (prec == 0: unchanged); non-finite
    values pass through"""
    if is_nonfinite(x):
        return result == x
    if prec == 0:
        return result == x
    return CRound(result, x[0], x[1], x[2], prec, rnd)


def neg_of(t):
    """exact negation of a canonical value (zero and nan are their own negations)"""
    if t == finf:
        return fninf
    if t == fninf:
        return finf
    if t[1] == 0:
        return t
    return (1 - t[0], t[1], t[2], t[3])


def abs_of(t):
    if t == fninf:
        return finf
    if t[1] == 0:
        return t
    return (0, t[1], t[2], t[3])


def SumSpec(result, s, t, prec, rnd):
    """result == round_prec(s + t) for canonical s, t over the extended reals (+ nan);
    prec == 0 means the exact sum"""
    if s == fnan or t == fnan:
        return result == fnan
    if s == finf or s == fninf:
        if (t == finf or t == fninf) and t != s:
            return result == fnan
        return result == s
    if t == finf or t == fninf:
        return result == t
    if s[1] == 0:
        return RoundOf(result, t, prec, rnd)
    if t[1] == 0:
        return RoundOf(result, s, prec, rnd)
    E = min(s[2], t[2])
    S = (1 - 2 * s[0]) * s[1] * pow2(s[2] - E) + (1 - 2 * t[0]) * t[1] * pow2(t[2] - E)
    if S >= 0:
        return CRoundOrExact(result, 0, S, E, prec, rnd)
    return CRoundOrExact(result, 1, -S, E, prec, rnd)


def xor01(a, b):
    if a == b:
        return 0
    return 1


def ProdSpec(result, s, t, prec, rnd):
    """result == round_prec(s * t); 0 * inf and nan give nan; prec == 0 exact"""
    if s == fnan or t == fnan:
        return result == fnan
    if is_nonfinite(s) or is_nonfinite(t):
        if s == fzero or t == fzero:
            return result == fnan
        if sgn_of(s) * sgn_of(t) > 0:
            return result == finf
        return result == fninf
    if s[1] == 0 or t[1] == 0:
        return result == fzero
    return CRoundOrExact(result, xor01(s[0], t[0]), s[1] * t[1], s[2] + t[2], prec, rnd)

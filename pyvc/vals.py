"""Symbolic values and the primitive operation library shared by the path executor
(code under verification) and the merging evaluator (contracts / spec functions).

Encoding of Python semantics (stated in every evidence file):
  * int is the mathematical integer (z3 Int); bool is a subclass of int.
  * x >> n  (n >= 0)  is floor division by 2**n; with a symbolic n it is encoded with
    fresh q, r:  x == q*pow2(n) + r, 0 <= r < pow2(n)   (pow2 uninterpreted; facts about
    it enter as ground lemma instances, see lemmas.py).
  * x << n  is x * pow2(n).   Negative shift counts raise (an obligation in safety mode).
  * //, % follow the sign of the divisor (floor semantics).
  * & | ^ are modelled for masks 2**k-1, single bits and 0/1 operands; anything else is
    an uninterpreted function (sound: nothing is assumed about it).
"""
import os

import z3

# z3 5.x: the Diophantine-equation handler of the LIA solver (lp.dio) can run for hours on some of these queries
# without honouring rlimit or the timeout (observed: a worker stuck in lp::dioph_eq::imp::substitute_on_q on numbers
# with thousands of digits).  It is switched off for every query; PYVC_Z3_DIO=1 restores the default.
import sys
if hasattr(sys, 'set_int_max_str_digits'):
    sys.set_int_max_str_digits(0)       # counter-models and pow2 refinement use integers with tens of thousands of digits

if os.environ.get('PYVC_Z3_DIO') != '1':
    z3.set_param('lp.dio', False)

I = z3.IntSort()
B = z3.BoolSort()
pow2_f = z3.Function('pow2', I, I)
bitlen_f = z3.Function('bitlen', I, I)
ipow_f = z3.Function('ipow', I, I, I)
and_uf = z3.Function('bitand_uf', I, I, I)
or_uf = z3.Function('bitor_uf', I, I, I)
xor_uf = z3.Function('bitxor_uf', I, I, I)
trail_f = z3.Function('trailing', I, I)   # number of trailing zero bits (spec)
isqrt_f = z3.Function('isqrt', I, I)
fact_f = z3.Function('fact', I, I)
rval_f = z3.Function('rval', I, I, I, z3.RealSort())   # exact real value of a finite raw mpf (sign, man, exp)
rfun_f = z3.Function('r_fun', I, z3.RealSort(), z3.RealSort())   # exp / log / sqrt / atan on the reals (uninterpreted)
cfix_f = z3.Function('cfix', I, I)          # floor(c * 2**p) for an abstract positive real constant c


class Val(object):
    __slots__ = ()


class IntV(Val):
    __slots__ = ('t',)

    def __init__(self, t):
        if isinstance(t, int):
            t = z3.IntVal(t)
        self.t = t

    def __repr__(self):
        return 'IntV(%s)' % self.t


class RealV(Val):
    """value of a float expression, treated as an exact real (assumption: machine float
    arithmetic is read as mathematical; float literals keep their exact binary value)"""
    __slots__ = ('t',)

    def __init__(self, t):
        self.t = t

    def __repr__(self):
        return 'RealV(%s)' % self.t


class BoolV(Val):
    __slots__ = ('t',)

    def __init__(self, t):
        if isinstance(t, bool):
            t = z3.BoolVal(t)
        self.t = t

    def __repr__(self):
        return 'BoolV(%s)' % self.t


class TupV(Val):
    __slots__ = ('items', 'kind')

    def __init__(self, items, kind='tuple'):
        self.items = list(items)
        self.kind = kind

    def __repr__(self):
        return 'TupV(%r)' % (self.items,)


class ConstV(Val):
    """A concrete Python object that is not an int/bool (str, None, float, function,
    table, dict, class, module ...)."""
    __slots__ = ('obj',)

    def __init__(self, obj):
        self.obj = obj

    def __repr__(self):
        r = repr(self.obj)
        return 'ConstV(%s)' % (r if len(r) < 60 else r[:57] + '...')


class UnkV(Val):
    """Havocked / unmodelled value: nothing is known about it."""
    __slots__ = ('tag',)

    def __init__(self, tag=''):
        self.tag = tag

    def __repr__(self):
        return 'UnkV(%s)' % self.tag


class ObjV(Val):
    """Reference to a modelled heap object (fields live in State.heap)."""
    __slots__ = ('oid', 'cls')

    def __init__(self, oid, cls=None):
        self.oid = oid
        self.cls = cls

    def __repr__(self):
        return 'ObjV(%s)' % self.oid


class ExcV(Val):
    """Signals a raised exception while evaluating an expression."""
    __slots__ = ('exc', 'info')

    def __init__(self, exc, info=''):
        self.exc = exc
        self.info = info

    def name(self):
        e = self.exc
        return e if isinstance(e, str) else getattr(e, '__name__', str(e))

    def __repr__(self):
        return 'ExcV(%s)' % self.name()


class FuncV(Val):
    """A closure / nested function defined in code under analysis."""
    __slots__ = ('node', 'env', 'name')

    def __init__(self, node, env, name):
        self.node = node
        self.env = env
        self.name = name


_fresh_counter = [0]


def fresh_int(prefix='v'):
    _fresh_counter[0] += 1
    return z3.Int('%s!%d' % (prefix, _fresh_counter[0]))


def fresh_real(prefix='r'):
    _fresh_counter[0] += 1
    return z3.Real('%s!%d' % (prefix, _fresh_counter[0]))


def fresh_bool(prefix='b'):
    _fresh_counter[0] += 1
    return z3.Bool('%s!%d' % (prefix, _fresh_counter[0]))


def reset_fresh():
    _fresh_counter[0] = 0


def lift(obj):
    if isinstance(obj, Val):
        return obj
    if isinstance(obj, bool):
        return BoolV(obj)
    if isinstance(obj, int):
        return IntV(obj)
    if isinstance(obj, tuple) and len(obj) <= 8 and all(
            isinstance(x, (int, bool, tuple, str, type(None))) for x in obj):
        return TupV([lift(x) for x in obj], 'tuple')
    return ConstV(obj)


def is_conc_int(v):
    return isinstance(v, IntV) and z3.is_int_value(v.t)


def conc_int(v):
    return v.t.as_long()


def int_term(v):
    """z3 Int term for an int-like value, else None."""
    if isinstance(v, IntV):
        return v.t
    if isinstance(v, BoolV):
        if z3.is_true(v.t):
            return z3.IntVal(1)
        if z3.is_false(v.t):
            return z3.IntVal(0)
        return z3.If(v.t, z3.IntVal(1), z3.IntVal(0))
    return None


def simp(t):
    return z3.simplify(t)


def mk_and(xs):
    xs = [x for x in xs if not z3.is_true(x)]
    if not xs:
        return z3.BoolVal(True)
    if len(xs) == 1:
        return xs[0]
    return z3.And(*xs)


def mk_or(xs):
    xs = [x for x in xs if not z3.is_false(x)]
    if not xs:
        return z3.BoolVal(False)
    if len(xs) == 1:
        return xs[0]
    return z3.Or(*xs)


# registry: id of z3 term  ->  e   for terms of the form  pow2(e) - 1
_mask_terms = {}


def mk_mask(e):
    t = pow2_f(e) - 1
    _mask_terms[t.get_id()] = (e, t)
    return t


def pow2_term(e):
    e = simp(e) if not z3.is_int_value(e) else e
    if z3.is_int_value(e):
        k = e.as_long()
        if 0 <= k <= 4096:
            return z3.IntVal(1 << k)
    return pow2_f(e)


def is_pow2m1(n):
    return n >= 0 and (n & (n + 1)) == 0


def is_single_bit(n):
    return n > 0 and (n & (n - 1)) == 0

"""Machine check of the lemma library: /verif/lemmas/*.lean are compiled with the installed Lean 4 +
Mathlib.  The result is cached in /verif/.scratch/lean.stamp keyed by the hash of the .lean files and the
Lean version (the cache is not committed: a fresh restore compiles them again, ~2.5 min cold)."""
import hashlib
import json
import os
import re
import subprocess

HERE = os.path.dirname(os.path.dirname(os.path.abspath(__file__)))
LEMMAS = os.path.join(HERE, 'lemmas')
STAMP = os.path.join(HERE, '.scratch', 'lean.stamp')

# hint / ground lemma of pyvc  ->  theorem in lemmas/*.lean (statements over N; pyvc uses them over Z guarded by >= 0)
CORRESPONDENCE = {
    'lemma_pow2_add': 'Pyvc.pow2_add', 'lemma_pow2_sub': 'Pyvc.pow2_sub', 'lemma_pow2_succ': 'Pyvc.pow2_succ',
    'lemma_bitlen_bounds': 'Pyvc.bitlen_bounds', 'lemma_bitlen_mul_pow2': 'Pyvc.bitlen_mul_pow2',
    'lemma_bitlen_mono': 'Pyvc.bitlen_mono', 'lemma_mul_mono': 'Pyvc.lemma_mul_mono', 'lemma_mul_lt': 'Pyvc.lemma_mul_lt',
    'lemma_odd_pow2_unique': 'Pyvc.odd_pow2_unique', 'lemma_pow2_mod61': 'Pyvc.pow2_mod61', 'lemma_shr_shr': 'Pyvc.shr_shr',
    'lemma_mul_cancel_lt': 'Pyvc.lemma_mul_cancel_lt', 'lemma_mul_cancel_le': 'Pyvc.lemma_mul_cancel_le',
    'lemma_div_bounds': 'Pyvc.lemma_div_bounds', 'lemma_mul_eq': 'Pyvc.lemma_mul_eq', 'lemma_bitlen_mul': 'Pyvc.bitlen_mul',
    'lemma_shr_bitlen': 'Pyvc.shr_bitlen', 'lemma_odd_mul': 'Pyvc.lemma_odd_mul', 'lemma_mul_pos': 'Pyvc.lemma_mul_pos',
    'lemma_even_mul': 'Pyvc.lemma_even_mul', 'lemma_mul_lt_r': 'Pyvc.lemma_mul_lt_r', 'lemma_mul_le_r': 'Pyvc.lemma_mul_le_r',
    'lemma_bitlen_2x1': 'Pyvc.bitlen_2x1', 'lemma_mul_assoc3': 'Pyvc.lemma_mul_assoc3',
    'lemma_mul_cancel_eq': 'Pyvc.lemma_mul_cancel_eq', 'lemma_mul_distrib': 'Pyvc.lemma_mul_distrib',
    'lemma_bitlen_ge': 'Pyvc.bitlen_ge', 'lemma_sq_expand': 'Pyvc.lemma_sq_expand',
    'lemma_isqrt_unique': 'Pyvc.lemma_isqrt_unique', 'lemma_sq_mono': 'Pyvc.lemma_sq_mono', 'lemma_sq_mono_lt': 'Pyvc.lemma_sq_mono_lt',
    'lemma_sq_cancel': 'Pyvc.lemma_sq_cancel',
    'lemma_pow2_le': 'Pyvc.pow2_le', 'lemma_mul_eq2': 'Pyvc.lemma_mul_eq2',
    'lemma_cfix_shift': 'Pyvc.cfix_shift', 'lemma_cfix_nonneg': 'Pyvc.cfix_nonneg',
    'lemma_r_fun_mono': 'Pyvc.exp_mono / log_mono / sqrt_mono / arctan_mono',
    # ground lemmas of lemmas.py
    'pow2_pos': 'Pyvc.pow2_pos', 'pow2_gt': 'Pyvc.pow2_gt', 'pow2_even': 'Pyvc.pow2_even', 'pow2_mono': 'Pyvc.pow2_mono',
    'pow2_succ': 'Pyvc.pow2_succ', 'bitlen_zero': 'Pyvc.bitlen_zero', 'bitlen_spec': 'Pyvc.bitlen_spec',
}


def _digest():
    h = hashlib.sha256()
    for f in sorted(os.listdir(LEMMAS)):
        if f.endswith('.lean'):
            h.update(f.encode())
            h.update(open(os.path.join(LEMMAS, f), 'rb').read())
    try:
        h.update(subprocess.run(['lean', '--version'], capture_output=True, text=True, timeout=60).stdout.encode())
    except Exception:
        h.update(b'no-lean')
    return h.hexdigest()


def theorems():
    names = set()
    for f in sorted(os.listdir(LEMMAS)):
        if f.endswith('.lean'):
            for m in re.finditer(r'^theorem\s+(\w+)', open(os.path.join(LEMMAS, f)).read(), re.M):
                names.add('Pyvc.' + m.group(1))
    return names


def check(force=False):
    """returns dict(status='checked'|'cached'|'failed'|'unavailable', ...)"""
    d = _digest()
    if not force and os.path.exists(STAMP):
        try:
            st = json.load(open(STAMP))
            if st.get('digest') == d and st.get('status') == 'checked':
                st['status'] = 'cached'
                return st
        except Exception:
            pass
    out = {'digest': d, 'files': [], 'status': 'checked'}
    for f in sorted(os.listdir(LEMMAS)):
        if not f.endswith('.lean'):
            continue
        try:
            r = subprocess.run(['lean', f], cwd=LEMMAS, capture_output=True, text=True, timeout=1800)
        except Exception as e:
            out['status'] = 'unavailable'
            out['error'] = repr(e)
            return out
        errs = [l for l in (r.stdout + r.stderr).splitlines() if ': error' in l]
        sorry = 'sorry' in open(os.path.join(LEMMAS, f)).read()
        out['files'].append({'file': f, 'exit': r.returncode, 'errors': errs[:5], 'contains_sorry': sorry})
        if r.returncode != 0 or errs or sorry:
            out['status'] = 'failed'
    names = theorems()
    missing = sorted(k for k, v in CORRESPONDENCE.items() if not any(t.strip() in names for t in re.split(r'[/,]', v.replace('Pyvc.', 'Pyvc.')) if t.strip().startswith('Pyvc.')) and '/' not in v)
    out['theorems'] = len(names)
    out['unmatched'] = missing
    if missing:
        out['status'] = 'failed'
    os.makedirs(os.path.dirname(STAMP), exist_ok=True)
    json.dump(out, open(STAMP, 'w'))
    return out


if __name__ == '__main__':
    import sys
    r = check(force='--force' in sys.argv)
    print(json.dumps(r, indent=1))
    sys.exit(0 if r['status'] in ('checked', 'cached') else 1)

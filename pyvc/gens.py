"""Deterministic input generators for the *bounded* stand-in tier (never counted as proved).
Domains are enumerated from small parameter grids; where a grid is sampled the choice is
driven by VERIF_SEED."""
import itertools
import random

RND5 = ('n', 'f', 'c', 'u', 'd')
fzero = (0, 0, 0, 0)
fnan = (0, 0, -123, -1)
finf = (0, 0, -456, -2)
fninf = (1, 0, -789, -3)
SPECIALS = (fzero, fnan, finf, fninf)


def mant_patterns(bc, rng=None, extra=0):
    """odd mantissas with exactly bc bits: boundary bit patterns (+ `extra` seeded random ones)"""
    if bc <= 0:
        return []
    if bc == 1:
        return [1]
    top = 1 << (bc - 1)
    out = {top + 1, (1 << bc) - 1}
    if bc >= 3:
        out.add(top + (1 << (bc // 2)) + 1)
        out.add(top | ((top - 1) & int('55' * (bc // 8 + 1), 16)) | 1)
        out.add((1 << bc) - 1 - (1 << (bc // 2)))
        out.add(top + 3)
    if rng is not None:
        for _ in range(extra):
            out.add(top | rng.getrandbits(bc - 1) | 1)
    return sorted(m for m in out if m.bit_length() == bc and m % 2 == 1)


def mk(sign, man, exp):
    return (sign, man, exp, man.bit_length())


def small_mpfs(maxman=64, exps=(-3, -1, 0, 1, 2, 5)):
    """all canonical finite values with odd mantissa < maxman over an exponent window, both signs"""
    for man in range(1, maxman, 2):
        for e in exps:
            for sg in (0, 1):
                yield mk(sg, man, e)


def bit_lengths_around(prec):
    cand = {1, 2, 3, prec - 1, prec, prec + 1, prec + 2, prec + 3, prec + 4, prec + 5, prec + 6,
            2 * prec, 2 * prec + 9, 3 * prec + 1}
    return sorted(b for b in cand if b >= 1)


def far_apart_pairs(seed=0, tier='quick'):
    """(s, t, prec) with |sexp - texp| > 100 and operand tops more than prec+4 bits apart:
    the sub-case mpf_add handles by perturbation.  Grid: precs x bit length of the large
    operand around prec x offsets x top-distance delta at the boundaries (prec+5.., around the
    large operand's own bit length) -> the small operand's bit length is determined;
    x mantissa patterns x signs x both argument orders."""
    rng = random.Random(seed)
    precs = (1, 2, 3, 5, 10, 24, 53) if tier == 'quick' else (1, 2, 3, 4, 5, 8, 10, 11, 24, 53, 64, 113)
    offsets = (101, 102, 150) if tier == 'quick' else (101, 102, 103, 150, 400, 3000)
    for prec in precs:
        for sbc in bit_lengths_around(prec):
            deltas = sorted(set(d for d in (prec + 5, prec + 6, prec + 7, prec + 20, sbc - 1, sbc,
                                            sbc + 1, sbc + 5, 2 * sbc) if d > prec + 4))
            for off in offsets:
                for delta in deltas:
                    tbc = sbc + off - delta
                    if tbc < 1:
                        continue
                    sms = mant_patterns(sbc, rng, 1 if tier == 'quick' else 3)
                    tms = mant_patterns(tbc, rng, 0 if tier == 'quick' else 2)
                    if tier == 'quick':
                        sms, tms = sms[:4], tms[:3]
                    for sm in sms:
                        for tm in tms:
                            for ss in (0, 1):
                                for ts in (0, 1):
                                    s = (ss, sm, off, sbc)
                                    t = (ts, tm, 0, tbc)
                                    yield s, t, prec
                                    yield t, s, prec


def add_gap_inputs(seed=0, tier='quick'):
    for s, t, prec in far_apart_pairs(seed, tier):
        for rnd in RND5:
            for sub in (0, 1):
                yield dict(s=s, t=t, prec=prec, rnd=rnd, _sub=sub)


def div_inputs(seed=0, tier='quick'):
    """(s, t, prec, rnd): all odd mantissa pairs below a bound x signs x precisions x modes,
    plus long patterned mantissas around the precision"""
    rng = random.Random(seed)
    top = 64 if tier == 'quick' else 256
    precs = (1, 2, 3, 4, 5, 7, 10) if tier == 'quick' else tuple(range(1, 14)) + (24, 53)
    for sm in range(1, top, 2):
        for tm in range(3, top, 2):
            for prec in precs:
                for rnd in RND5:
                    for ss, ts in ((0, 0), (1, 0)):
                        yield dict(s=mk(ss, sm, 0), t=mk(ts, tm, 0), prec=prec, rnd=rnd)
    for prec in (1, 2, 5, 10, 24, 53, 64):
        for sbc in bit_lengths_around(prec):
            for tbc in bit_lengths_around(prec):
                for sm in mant_patterns(sbc, rng, 1)[:4]:
                    for tm in mant_patterns(tbc, rng, 1)[:4]:
                        if tm == 1:
                            continue
                        for rnd in RND5:
                            for ss, ts in ((0, 0), (0, 1), (1, 1)):
                                yield dict(s=(ss, sm, -3, sbc), t=(ts, tm, 5, tbc), prec=prec, rnd=rnd)


def rdiv_inputs(seed=0, tier='quick'):
    rng = random.Random(seed)
    top = 48 if tier == 'quick' else 200
    for n in list(range(-top, top)) + [10 ** 20 + 7, -(2 ** 70 + 1)]:
        if n == 0:
            continue
        for tm in range(1, top, 2):
            for prec in (1, 2, 3, 5, 10, 53):
                for rnd in RND5:
                    yield dict(n=n, t=mk(0, tm, -2), prec=prec, rnd=rnd)
    for prec in (1, 5, 24, 53):
        for tbc in bit_lengths_around(prec):
            for tm in mant_patterns(tbc, rng, 1)[:4]:
                for n in (1, -1, 3, 7, 10, -1000, 2 ** 64 - 1):
                    for rnd in RND5:
                        yield dict(n=n, t=(1, tm, 3, tbc), prec=prec, rnd=rnd)


GENS = {'add_gap_inputs': add_gap_inputs, 'div_inputs': div_inputs, 'rdiv_inputs': rdiv_inputs}


def interesting_mpfs(seed=0, tier='quick'):
    """canonical finite values with boundary mantissas: small, all-ones, 2**k +- 1, around the
    hash modulus 2**61-1 and around 2**31, 2**53, 2**64; a spread of exponents; both signs"""
    rng = random.Random(seed)
    mans = set(range(1, 40, 2))
    for k in (8, 16, 24, 30, 31, 32, 52, 53, 54, 60, 61, 62, 63, 64, 65, 100, 122, 128, 200):
        for d in (-3, -1, 1, 3):
            mans.add((1 << k) + d)
        mans.add((1 << k) - (1 << (k // 2)) - 1)
    P = (1 << 61) - 1
    for m in (P, 3 * P, 5 * P, P * P, P + 2, P - 2, 2 * P + 1, 2 * P - 1):
        mans.add(m)
    for _ in range(20 if tier == 'quick' else 200):
        mans.add(rng.getrandbits(rng.choice((20, 61, 62, 70, 130))) | 1)
    exps = (-200, -123, -62, -61, -60, -1, 0, 1, 2, 59, 60, 61, 62, 121, 122, 123, 1000)
    for m in sorted(x for x in mans if x > 0 and x % 2 == 1):
        for e in exps:
            for sg in (0, 1):
                yield mk(sg, m, e)


def one_mpf_inputs(seed=0, tier='quick'):
    for x in list(SPECIALS) + list(interesting_mpfs(seed, tier)):
        yield dict(s=x)


def two_mpf_inputs(seed=0, tier='quick'):
    xs = list(SPECIALS) + list(small_mpfs(16, (-2, 0, 1, 3)))
    rng = random.Random(seed)
    big = list(interesting_mpfs(seed, tier))
    pick = big if tier != 'quick' else rng.sample(big, min(len(big), 150))
    for s in xs + pick:
        for t in xs:
            yield dict(s=s, t=t)
    # equal top bit, different exponents (the hard case for comparison)
    for k in (5, 20, 64, 65, 100, 130):
        for j in (1, 2, k // 2, k - 1):
            a = (1 << k) + 1
            b = ((1 << k) + (1 << j)) | 1
            for sg in (0, 1):
                s = (sg, a, 0, a.bit_length())
                t = (sg, b >> 0, 0, b.bit_length())
                yield dict(s=s, t=t)
                t2m = ((1 << k) + (1 << j))
                tz = (t2m & -t2m).bit_length() - 1
                t2 = (sg, t2m >> tz, tz, (t2m >> tz).bit_length())
                yield dict(s=s, t=t2)
                yield dict(s=t2, t=s)


GENS.update({'one_mpf_inputs': one_mpf_inputs, 'two_mpf_inputs': two_mpf_inputs})


def pow_int_inputs(seed=0, tier='quick'):
    rng = random.Random(seed)
    bases = list(small_mpfs(32, (-2, 0, 3)))
    for bc in (20, 53, 64, 100):
        for m in mant_patterns(bc, rng, 1)[:3]:
            bases.append(mk(0, m, -bc + 1))
            bases.append(mk(1, m, 5 - bc))
    ns = [-300, -17, -3, -2, -1, 0, 1, 2, 3, 5, 7, 10, 31, 64, 100, 255, 256, 1000, 4097] if tier == 'quick' \
        else list(range(-40, 300)) + [1000, 4097, 10 ** 4]
    precs = (1, 2, 5, 10, 24, 53) if tier == 'quick' else (1, 2, 3, 5, 10, 24, 53, 64, 113)
    for s in bases:
        for n in ns:
            if s[1] == 0 and n < 0:
                continue
            for prec in precs:
                for rnd in RND5:
                    yield dict(s=s, n=n, prec=prec, rnd=rnd)
    # long sparse mantissas (1 +- 2**-k, 1 + 2**-k + 2**-j): the exact power is a representable number plus a
    # tail far below the guard bits, so only the direction of the intermediate truncations decides the result
    for k in (60, 120, 340) if tier == 'quick' else (40, 60, 90, 120, 200, 340, 500, 999):
        sparse = []
        for m in ((1 << k) + 1, (1 << k) - 1, 3 * (1 << k) + 1):
            for sg in (0, 1):
                sparse.append(mk(sg, m, -k))
        # precisions at which (1+e)**n = (representable) + (tail below the guard bits), e = 2**-k
        kprecs = sorted(set([10, 53, 2 * k + 3, 2 * k + 20, (5 * k) // 2, 3 * k - 14, 3 * k - 5, 3 * k + 8, 4 * k + 9]))
        for s in sparse:
            for n in (2, 3, 5, 6, 7, 9, -3, -7):
                for prec in kprecs:
                    for rnd in RND5:
                        yield dict(s=s, n=n, prec=prec, rnd=rnd)


GENS['pow_int_inputs'] = pow_int_inputs


def _mpf_pool(seed, tier):
    """a small pool of canonical reals for complex search: specials, small values, values whose
    mantissa is longer than the precisions used below, powers of two"""
    rng = random.Random(seed)
    pool = list(SPECIALS) + list(small_mpfs(8, (-1, 0, 2)))
    for bc in (5, 11, 12, 54, 60):
        for m in mant_patterns(bc, rng, 1)[:3]:
            pool.append(mk(0, m, -bc))
            pool.append(mk(1, m, 3))
    return pool


_CPRECS = (1, 2, 3, 5, 10, 53)


def two_mpc_inputs(seed=0, tier='quick'):
    pool = _mpf_pool(seed, tier)
    rng = random.Random(seed + 1)
    n = 4000 if tier == 'quick' else 40000
    for _ in range(n):
        z = (rng.choice(pool), rng.choice(pool))
        w = (rng.choice(pool), rng.choice(pool))
        yield dict(z=z, w=w, prec=rng.choice(_CPRECS), rnd=rng.choice(RND5))


def mpc_mpf_inputs(seed=0, tier='quick'):
    pool = _mpf_pool(seed, tier)
    rng = random.Random(seed + 2)
    n = 4000 if tier == 'quick' else 40000
    for _ in range(n):
        z = (rng.choice(pool), rng.choice(pool))
        x = rng.choice(pool)
        yield dict(z=z, x=x, p=x, prec=rng.choice(_CPRECS), rnd=rng.choice(RND5))


def mpc_int_inputs(seed=0, tier='quick'):
    pool = _mpf_pool(seed, tier)
    rng = random.Random(seed + 3)
    ns = [0, 1, -1, 2, 3, -3, 5, 7, 10, 255, 257, 1023, 1025, -4097, 2 ** 31 + 1, 2 ** 64 - 1, 10 ** 20 + 7, 3 ** 40]
    n = 4000 if tier == 'quick' else 40000
    for _ in range(n):
        z = (rng.choice(pool), rng.choice(pool))
        yield dict(z=z, n=rng.choice(ns), prec=rng.choice(_CPRECS), rnd=rng.choice(RND5))


def one_mpc_inputs(seed=0, tier='quick'):
    pool = _mpf_pool(seed, tier)
    for a in pool:
        for b in pool:
            for prec in (1, 3, 10, 53):
                for rnd in RND5:
                    yield dict(z=(a, b), prec=prec, rnd=rnd)


GENS.update({'two_mpc_inputs': two_mpc_inputs, 'mpc_mpf_inputs': mpc_mpf_inputs, 'mpc_int_inputs': mpc_int_inputs,
             'one_mpc_inputs': one_mpc_inputs})


def frac_inputs(seed=0, tier='quick'):
    for x in list(SPECIALS) + list(small_mpfs(64, (-7, -3, -1, 0, 2))) + list(interesting_mpfs(seed, tier)):
        for prec in (0, 1, 2, 3, 5, 10, 53):
            for rnd in RND5:
                yield dict(s=x, prec=prec, rnd=rnd)


GENS['frac_inputs'] = frac_inputs


def mod_inputs(seed=0, tier='quick'):
    pool = [fzero] + list(small_mpfs(16, (-2, 0, 1, 3)))
    rng = random.Random(seed + 5)
    for bc in (11, 54):
        for m in mant_patterns(bc, rng, 1)[:3]:
            pool.append(mk(0, m, -bc))
            pool.append(mk(1, m, -3))
    for s in pool + list(SPECIALS):
        for t in pool + list(SPECIALS):
            for prec in (1, 3, 10, 53):
                for rnd in RND5:
                    yield dict(s=s, t=t, prec=prec, rnd=rnd, _sub=0)


GENS['mod_inputs'] = mod_inputs


def memo_inputs(seed=0, tier='quick'):
    """cache states satisfying the invariant (native c = 2/3) x requested precisions"""
    from .spec import cfix
    top = 40 if tier == 'quick' else 200
    for m_prec in [-1] + list(range(0, top)):
        for prec in range(0, top + 20):
            yield dict(prec=prec, kwargs={}, m_prec=m_prec, m_val=(cfix(m_prec) if m_prec >= 0 else None))
            if prec > m_prec:
                # the same request with the fixed-point routine aborted by an exception
                yield dict(prec=prec, kwargs={}, m_prec=m_prec, m_val=(cfix(m_prec) if m_prec >= 0 else None), _callee_raises=True)


def const_inputs(seed=0, tier='quick'):
    for prec in range(1, 80 if tier == 'quick' else 400):
        for rnd in RND5:
            yield dict(prec=prec, rnd=rnd)


GENS.update({'memo_inputs': memo_inputs, 'const_inputs': const_inputs})


def _iv_pool():
    from fractions import Fraction
    ends = [fninf, mk(1, 5, 1), mk(1, 3, 0), mk(1, 1, -2), fzero, mk(0, 1, -3), mk(0, 1, 0), mk(0, 3, 0), mk(0, 7, 2),
            mk(0, (1 << 70) + 1, -68), mk(1, (1 << 70) + 1, -69), finf]

    def v(e):
        if e == finf:
            return float('inf')
        if e == fninf:
            return float('-inf')
        q = Fraction(e[1]) * Fraction(2) ** e[2]
        return -q if e[0] else q
    ivs = []
    for a in ends:
        for b in ends:
            if v(a) <= v(b) and not (a == finf and b == finf) and not (a == fninf and b == fninf):
                ivs.append(((a, b), v(a), v(b)))
    return ivs


def _members(lo, hi):
    from fractions import Fraction
    inf = float('inf')
    if lo == -inf and hi == inf:
        return [Fraction(0), Fraction(-1000), Fraction(1000)]
    if lo == -inf:
        return [hi, hi - 1, hi - 10 ** 6]
    if hi == inf:
        return [lo, lo + 1, lo + 10 ** 6]
    return [lo, hi, (lo + hi) / 2]


def mpi2_inputs(seed=0, tier='quick'):
    ivs = _iv_pool()
    for s, slo, shi in ivs:
        for t, tlo, thi in ivs:
            for prec in (0, 1, 2, 5, 53):
                for x in _members(slo, shi):
                    for y in _members(tlo, thi):
                        yield dict(s=s, t=t, prec=prec, x=x, y=y)


def mpi1_inputs(seed=0, tier='quick'):
    ivs = _iv_pool()
    for s, slo, shi in ivs:
        for prec in (0, 1, 2, 5, 53):
            for x in _members(slo, shi):
                yield dict(s=s, prec=prec, x=x)


GENS.update({'mpi2_inputs': mpi2_inputs, 'mpi1_inputs': mpi1_inputs})


def sqrt_inputs(seed=0, tier='quick'):
    rng = random.Random(seed + 9)
    xs = [fzero, finf, fnan]
    for man in list(range(1, 200, 2)) + [(1 << 60) + 1, (1 << 107) - 1, 3 ** 40, (3 ** 20) ** 2, ((1 << 30) + 1) ** 2]:
        m = man
        while m % 2 == 0:
            m //= 2
        for e in (-7, -2, -1, 0, 1, 4, 9):
            xs.append(mk(0, m, e))
    for x in xs:
        for prec in (1, 2, 3, 5, 10, 24, 53):
            for rnd in RND5:
                yield dict(s=x, prec=prec, rnd=rnd)


GENS['sqrt_inputs'] = sqrt_inputs


def _rects(seed):
    """complex rectangles (a, b) with members: small pool of real intervals incl. point intervals with long mantissas"""
    from fractions import Fraction
    rng = random.Random(seed + 11)
    pts = [mk(0, 1, 0), mk(1, 3, -1), mk(0, (1 << 51) + 12347, 0), mk(0, 2 * ((1 << 51) + 12347) - 1, 0), mk(0, (1 << 51) + 12345, 0),
           mk(0, (1 << 52) + 24694 >> 1 << 1 | 1, 0), mk(1, (1 << 70) + 1, -68), mk(0, 5, -3), fzero]

    def v(e):
        q = Fraction(e[1]) * Fraction(2) ** e[2]
        return -q if e[0] else q
    ivs = [((p, p), [v(p)]) for p in pts]
    ivs += [((mk(1, 1, 0), mk(0, 3, 0)), [Fraction(-1), Fraction(3), Fraction(1)]), ((mk(0, 1, -1), mk(0, 7, 0)), [Fraction(1, 2), Fraction(7)]),
            ((mk(1, 5, 0), mk(1, 1, -2)), [Fraction(-5), Fraction(-1, 4)]), ((fninf, mk(0, 1, 0)), [Fraction(-100), Fraction(1)]),
            ((mk(0, 1, 0), finf), [Fraction(1), Fraction(10 ** 6)])]
    return ivs


def mpci2_inputs(seed=0, tier='quick'):
    ivs = _rects(seed)
    for a, am in ivs:
        for b, bm in ivs[::2]:
            for c, cm in ivs:
                for d, dm in ivs[1::2]:
                    for prec in (53, 10):
                        yield dict(x=(a, b), y=(c, d), prec=prec, xr=am[0], xi=bm[0], yr=cm[0], yi=dm[0])
                        yield dict(x=(a, b), y=(c, d), prec=prec, xr=am[-1], xi=bm[-1], yr=cm[-1], yi=dm[-1])


def mpci1_inputs(seed=0, tier='quick'):
    ivs = _rects(seed)
    for a, am in ivs:
        for b, bm in ivs:
            for prec in (0, 1, 10, 53):
                for xr in am:
                    for xi in bm:
                        yield dict(x=(a, b), prec=prec, xr=xr, xi=xi)


GENS.update({'mpci2_inputs': mpci2_inputs, 'mpci1_inputs': mpci1_inputs})


def bitcount_inputs(seed=0, tier='quick'):
    rng = random.Random(seed + 13)
    for k in list(range(0, 330)) + [400, 511, 512, 513, 1000, 1023, 1024, 1025, 4096, 10000, 65536, 100003]:
        for d in (-1, 0, 1):
            n = (1 << k) + d
            if n >= 0:
                yield dict(n=n, x=n)
        yield dict(n=(1 << k) | rng.getrandbits(k) if k else 1, x=(1 << k) | rng.getrandbits(k) if k else 1)
    for n in range(0, 2050):
        yield dict(n=n, x=n)


def isqrt_inputs(seed=0, tier='quick'):
    rng = random.Random(seed + 14)
    for n in range(0, 3000):
        yield dict(x=n)
    for k in (10, 31, 32, 33, 52, 53, 54, 63, 64, 65, 100, 127, 128, 129, 200, 599, 600, 601, 1000, 4000):
        for d in (-2, -1, 0, 1, 2):
            yield dict(x=(1 << k) + d)
            r = (1 << (k // 2)) + rng.getrandbits(max(k // 2 - 1, 1))
            yield dict(x=r * r + d)


GENS.update({'bitcount_inputs': bitcount_inputs, 'isqrt_inputs': isqrt_inputs})


def _rv_pool():
    return list(SPECIALS) + [mk(0, 1, 0), mk(1, 1, 0), mk(0, 3, -1), mk(1, 5, 2), mk(0, (1 << 60) + 1, -60), mk(1, (1 << 70) - 1, -10),
                             mk(0, 1, -200), mk(0, 7, 90)]


def rv2_inputs(seed=0, tier='quick'):
    for s in _rv_pool():
        for t in _rv_pool():
            for prec in (0, 1, 5, 53):
                for rnd in ('f', 'c', 'n'):
                    yield dict(s=s, t=t, prec=prec, rnd=rnd, _sub=0)


def rv1_inputs(seed=0, tier='quick'):
    for s in _rv_pool():
        for prec in (0, 1, 5, 53):
            for rnd in ('f', 'c', 'n'):
                yield dict(s=s, prec=prec, rnd=rnd)


def rvseq_inputs(seed=0, tier='quick'):
    pool = [x for x in _rv_pool() if x != fnan]
    for a in pool:
        for b in pool:
            yield dict(seq=[a, b])
            for c in pool[::3]:
                yield dict(seq=[a, b, c, pool[1]])


GENS.update({'rv2_inputs': rv2_inputs, 'rv1_inputs': rv1_inputs, 'rvseq_inputs': rvseq_inputs})


def mul_int_inputs(seed=0, tier='quick'):
    pool = [fzero, finf, fninf, fnan] + list(small_mpfs(16, (-2, 0, 3))) + [mk(0, (1 << 60) + 1, -60), mk(1, (1 << 53) - 1, 5)]
    for s in pool:
        for n in (0, 1, -1, 2, -2, 3, 4, 6, 10, 12, 255, 256, 1 << 40, (1 << 64) - 1, -(1 << 20), 1000):
            for prec in (1, 2, 5, 53):
                for rnd in RND5:
                    yield dict(s=s, n=n, prec=prec, rnd=rnd)


GENS['mul_int_inputs'] = mul_int_inputs

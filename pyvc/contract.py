"""Sidecar contract registry.  Contracts are keyed by the dotted name of the real function
in /repo and bound to the *function object actually in force* after import (so back-end
selection such as ``normalize = _normalize`` is resolved by the real module, not by us)."""
import ast
import importlib
import inspect
import textwrap

REGISTRY = {}          # id(function object) -> Contract
REGISTRY_RV = {}       # id(function object) -> Contract of the real-order view (see contracts/realview.py)
BY_NAME = {}           # dotted name -> Contract
TABLES = {}            # id(table object) -> TableModel
DICTS = {}             # id(dict object) -> DictModel


def resolve(dotted):
    parts = dotted.split('.')
    for i in range(len(parts), 0, -1):
        try:
            mod = importlib.import_module('.'.join(parts[:i]))
        except ImportError:
            continue
        obj = mod
        for p in parts[i:]:
            obj = inspect.getattr_static(obj, p) if inspect.isclass(obj) else getattr(obj, p)
            if isinstance(obj, (staticmethod, classmethod)):
                obj = obj.__func__
        return mod, obj
    raise ImportError(dotted)


class Contract(object):
    def __init__(self, target, cls, view=None):
        self.target = target
        self.view = view
        d = {}
        for k in reversed(cls.__mro__):
            if k is not object:
                d.update(k.__dict__)
        self.module, self.func = resolve(target)
        self.func = inspect.unwrap(self.func) if d.get('unwrap') else self.func
        self.enums = dict(d.get('enums', {}))
        self.shapes = dict(d.get('shapes', {}))
        self.result = d.get('result', 'any')
        self.requires = d.get('requires')
        self.ensures = []          # (name, fn, props)
        props = d.get('props', {})
        default_props = d.get('default_props', ())
        for k, v in d.items():
            if k.startswith('ensures_') and callable(v):
                name = k[len('ensures_'):]
                self.ensures.append((name, v, tuple(props.get(name, default_props))))
        self.raises = dict(d.get('raises', {}))     # exception class name -> fn(params)->bool
        # exc_ensures_<name>: clauses over the state left behind when a modelled callee raises
        self.exc_ensures = []
        for k, v in d.items():
            if k.startswith('exc_ensures_') and callable(v):
                name = k[len('exc_ensures_'):]
                self.exc_ensures.append((name, v, tuple(props.get('exc_' + name, default_props))))
        self.loops = dict(d.get('loops', {}))       # ordinal -> dict(invariant=fn, decreases=fn)
        self.ghost = {}       # (stmt head text, occurrence|None, 'before'|'after') -> [ghost stmts]
        for key, v in dict(d.get('ghost', {})).items():
            if isinstance(key, str):
                key = (key, None, 'after')
            elif len(key) == 2:
                key = (key[0], key[1], 'after')
            v = [v] if isinstance(v, str) else list(v)
            for src in v:
                _check_ghost(src, target)
            self.ghost[key] = v
        self.assumed = bool(d.get('assumed', False))
        self.inline = bool(d.get('inline', False))
        self.no_verify = bool(d.get('no_verify', False))
        self.all_props = tuple(d.get('all_props', default_props))
        self.note = d.get('note', '')
        self.cases = d.get('cases')     # optional list of extra case-split predicates
        # gaps: sub-cases of a clause that the verifier cannot decide; the deductive obligation
        # is generated for the complement only and the sub-case is covered by a *bounded*
        # native check (labelled bounded, never counted as proved).
        # each: dict(name=..., cond=fn(params)->bool, clauses=[...], gen=fn(seed, tier)->iter of arg dicts)
        self.gaps = list(d.get('gaps', []))
        # post_hints: lemma instances over (params, result, g_* ghost variables) assumed when an
        # ensures clause is checked at a return
        self.post_hints = list(d.get('post_hints', []))
        for src in self.post_hints:
            _check_ghost(src, target)
        # closure_model: free variable name -> dict(fields={attr: shape}, call=spec fn, call_requires=spec fn):
        # the free variable is an abstract object with symbolic fields and an assumed call contract
        self.closure_model = dict(d.get('closure_model', {}))
        # state: pseudo-parameter name -> (free variable, field): entry value under that name in requires/ensures,
        # final value under <name>_out in ensures
        self.state = dict(d.get('state', {}))
        # ghost_params: universally quantified extra symbols (name -> shape) visible to requires / ensures only
        self.ghost_params = dict(d.get('ghost_params', {}))
        self.requires_g = d.get('requires_g')     # the part of the precondition that mentions ghost parameters
        # call_insts: (callee short name, k-th call on the path) or callee short name -> [ {ghost: expression source} ]
        self.call_insts = dict(d.get('call_insts', {}))
        self.no_replay = bool(d.get('no_replay', False))
        # native_harness(args) -> dict(result=..., <state>_out=...): runs the real code around a native model of
        # the closure (used only by the native counterexample search / replay of closure contracts)
        nh = d.get('native_harness')
        self.native_harness = nh.__func__ if isinstance(nh, staticmethod) else nh
        self.native_clauses = set(d.get('native_clauses', ()))   # ensures evaluated only natively (bounded tier)
        self.feas_rlimit = d.get('feas_rlimit')   # per-contract budget of path-feasibility queries
        self.search = d.get('search')      # name of an input generator (gens.GENS) for the native counterexample search
        self.variants = list(d.get('variants', []))   # extra units with some params fixed (e.g. prec=None)
        self.none_as = dict(d.get('none_as', {}))     # at call sites: param given as None means this value
        self.sig = inspect.signature(self.func)
        self.params = list(self.sig.parameters)

    def __repr__(self):
        return '<Contract %s>' % self.target


def _check_ghost(src, target):
    """ghost code may only bind ghost variables (g_*) or instantiate lemma_* theorems"""
    if src.strip().startswith('split '):
        parts = src.split()
        if len(parts) == 4 and parts[1].isidentifier():
            int(parts[2]), int(parts[3])
            return
        raise ValueError('%s: bad split directive: %s' % (target, src))
    if src.strip().startswith('case '):
        ast.parse(src.strip()[5:].strip(), mode='eval')
        return
    if src.strip().startswith('cut '):
        ast.parse(src.strip()[4:].strip(), mode='eval')
        return
    node = ast.parse(src.strip()).body[0]
    if isinstance(node, ast.Assert) and node.msg is None:
        return      # proved where it stands (own obligation), then assumed
    if isinstance(node, ast.Assign):
        t = node.targets[0]
        if not (isinstance(t, ast.Name) and t.id.startswith('g_')):
            raise ValueError('%s: ghost assignment must target g_*: %s' % (target, src))
        return
    if isinstance(node, ast.Expr) and isinstance(node.value, ast.Call) and \
            isinstance(node.value.func, ast.Name) and node.value.func.id.startswith('lemma_'):
        return
    raise ValueError('%s: ghost statement must be g_* = ... or lemma_*(...): %s' % (target, src))


def contract(target, view=None):
    def deco(cls):
        c = Contract(target, cls, view)
        if view == 'real':
            REGISTRY_RV[id(c.func)] = c
            c.name = 'real:' + target
            BY_NAME[c.name] = c
            return cls
        c.name = target
        REGISTRY[id(c.func)] = c
        BY_NAME[target] = c
        return cls
    return deco


class TableModel(object):
    def __init__(self, target, fn, lo, hi):
        self.target = target
        self.fn = fn
        self.lo = lo
        self.hi = hi
        _, self.obj = resolve(target)

    def check_exhaustive(self):
        """complete proof over the finite table: model(i) == table[i] for every index."""
        n = 0
        assert len(self.obj) == self.hi, (self.target, len(self.obj), self.hi)
        for i in range(self.lo, self.hi):
            if self.obj[i] != self.fn(i):
                return False, i, n
            n += 1
        return True, None, n


def table_model(target, fn, lo, hi):
    t = TableModel(target, fn, lo, hi)
    TABLES[id(t.obj)] = t
    return t


class DictModel(object):
    """dict with integer keys lo..hi-1 whose value at k satisfies rel(k, value)."""

    def __init__(self, target, lo, hi, rel, shape):
        self.target = target
        self.lo, self.hi, self.rel, self.shape = lo, hi, rel, shape
        _, self.obj = resolve(target)

    def check_exhaustive(self):
        n = 0
        if sorted(self.obj.keys()) != list(range(self.lo, self.hi)):
            return False, 'keys', n
        for k in range(self.lo, self.hi):
            if not self.rel(k, self.obj[k]):
                return False, k, n
            n += 1
        return True, None, n


def dict_model(target, lo, hi, rel, shape):
    d = DictModel(target, lo, hi, rel, shape)
    DICTS[id(d.obj)] = d
    return d


_src_cache = {}


def func_ast(fn):
    """(FunctionDef node, first line number, filename) of a real Python function, re-read
    from the file on disk."""
    key = id(fn)
    if key in _src_cache:
        return _src_cache[key]
    code = fn.__code__
    filename = code.co_filename
    with open(filename) as f:
        src = f.read()
    tree = _parse_file(filename, src)
    target = None
    for node in ast.walk(tree):
        if isinstance(node, (ast.FunctionDef, ast.Lambda)) and node.lineno == code.co_firstlineno:
            if isinstance(node, ast.FunctionDef) and node.name != code.co_name:
                continue
            if isinstance(node, ast.Lambda) and code.co_name != '<lambda>':
                continue
            target = node
            break
        if isinstance(node, ast.FunctionDef) and node.decorator_list and \
                node.decorator_list[0].lineno == code.co_firstlineno and node.name == code.co_name:
            target = node
            break
    if target is None:
        raise LookupError('cannot locate source of %r in %s' % (fn, filename))
    _src_cache[key] = (target, filename)
    return _src_cache[key]


_file_cache = {}


def _parse_file(filename, src):
    if filename not in _file_cache:
        _file_cache[filename] = ast.parse(src, filename)
    return _file_cache[filename]


def source_ast_from_string(src, name):
    tree = ast.parse(textwrap.dedent(src))
    for node in ast.walk(tree):
        if isinstance(node, ast.FunctionDef) and node.name == name:
            return node
    raise LookupError(name)

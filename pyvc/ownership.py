"""C38 (contexts isolated): ownership / frame contracts over the real sources, decided syntactically for every
function of mpmath outside tests (all paths, all inputs: the rules are about *which object a store goes to*,
not about values).

State of a context: the attributes _prec, _dps, _prec_rounding (and the public setters prec, dps, the
`rounding` slot _prec_rounding[1]) plus the per-context numeric classes mpf / mpc / constant and their
`context` / `_ctxdata` links.

Contract (frame condition) of every function f:
  W1  f stores into the precision state only of its *own* context: the receiver of the store is the context
      parameter of f (`ctx`, or `self` in a method of a context class), an attribute chain that starts at the
      receiver parameter and ends in `.ctx` / `.context` (an object created for that context, e.g. a
      PrecisionManager or a number), or a local variable bound in f to a freshly constructed context.
  W2  whatever is stored into _prec / _prec_rounding as a container is a fresh list display (no aliasing of
      another context's state); _ctxdata lists are list displays whose precision slot is the receiver's own
      state.
  W3  the numeric classes of a context are created in its constructor by a `type(...)` call (fresh class per
      context) and their `context` is the constructor's receiver.
  W4  no function outside mpmath/__init__.py and the doctests names the global contexts mp / fp / iv.
  W5  (clone completeness) every attribute that mpmath/__init__.py assigns on the global `mp` after constructing it
      is also assigned by MPContext.__init__ (or a base constructor), so that `mp.clone()` -- which only calls the
      constructor -- yields a context with the same attributes.
Each function is one obligation; a violated rule names the statement."""
import ast
import os

STATE_ATTRS = {'_prec', '_dps', '_prec_rounding', 'prec', 'dps'}
CLASS_ATTRS = {'mpf', 'mpc', 'constant', '_constant'}
LINK_ATTRS = {'context', '_ctxdata'}
GLOBAL_CTX = {'mp', 'fp', 'iv'}


def root_and_chain(e):
    chain = []
    while True:
        if isinstance(e, ast.Attribute):
            chain.append(e.attr)
            e = e.value
        elif isinstance(e, ast.Subscript):
            chain.append('[]')
            e = e.value
        else:
            break
    return (e.id if isinstance(e, ast.Name) else None), list(reversed(chain))


def store_targets(node):
    """(target expression, value expression or None, stmt) for every store in the function body (not nested defs)"""
    out = []

    def visit(n):
        for ch in ast.iter_child_nodes(n):
            if isinstance(ch, (ast.FunctionDef, ast.AsyncFunctionDef, ast.Lambda, ast.ClassDef)):
                continue
            if isinstance(ch, ast.Assign):
                for t in ch.targets:
                    for tt in (t.elts if isinstance(t, (ast.Tuple, ast.List)) else [t]):
                        out.append((tt, ch.value, ch))
            elif isinstance(ch, ast.AugAssign):
                out.append((ch.target, None, ch))
            elif isinstance(ch, ast.AnnAssign) and ch.value is not None:
                out.append((ch.target, ch.value, ch))
            elif isinstance(ch, ast.Call) and isinstance(ch.func, ast.Name) and ch.func.id == 'setattr' and len(ch.args) == 3:
                a = ch.args[1]
                if isinstance(a, ast.Constant) and isinstance(a.value, str):
                    out.append((ast.Attribute(value=ch.args[0], attr=a.value, ctx=ast.Store()), ch.args[2], ch))
            visit(ch)
    visit(node)
    return out


def fresh_locals(node):
    """locals bound to a constructor call `X.__class__()`, `SomeContext()` or `type(...)` in this function"""
    out = {}
    for n in ast.walk(node):
        if isinstance(n, ast.Assign) and len(n.targets) == 1 and isinstance(n.targets[0], ast.Name) and isinstance(n.value, ast.Call):
            f = n.value.func
            if (isinstance(f, ast.Attribute) and f.attr == '__class__') or \
                    (isinstance(f, ast.Name) and (f.id.endswith('Context') or f.id == 'type')):
                out[n.targets[0].id] = n.value
    return out


def is_fresh_list(v):
    return isinstance(v, ast.List)


def analyze_function(fn, relpath, cls, inherited=()):
    """returns (violated rules, own context names) for one FunctionDef; `inherited`: own-context names of the
    enclosing functions (closures see them)"""
    bad = []
    args = [a.arg for a in fn.args.posonlyargs + fn.args.args]
    recv = args[0] if args else None
    own_names = set(n for n in inherited if n not in args)
    if recv in ('ctx', 'self', 'cls', 's'):
        own_names.add(recv)
    if 'ctx' in args:
        own_names.add('ctx')
    fresh = fresh_locals(fn)
    for tgt, val, stmt in store_targets(fn):
        root, chain = root_and_chain(tgt)
        if not chain:
            continue
        last = chain[-1]
        attr = last if last != '[]' else (chain[-2] if len(chain) >= 2 else None)
        touches_state = attr in STATE_ATTRS and (last != '[]' or attr in ('_prec', '_prec_rounding'))
        touches_link = last in LINK_ATTRS or (last in CLASS_ATTRS and len(chain) == 1)
        if not (touches_state or touches_link):
            continue
        # public `prec` / `dps` on arbitrary objects that are not contexts: only count receivers that look like contexts
        if attr in ('prec', 'dps') and root is not None and root not in own_names and root not in fresh and root not in GLOBAL_CTX:
            # e.g. `self.prec = prec` of a non-context helper class (quadrature rules keep their own field)
            if not (cls and cls.endswith('Context')):
                holder = chain[:-1]
                if not holder or holder[-1] not in ('ctx', 'context'):
                    continue
        where = 'L%d `%s`' % (stmt.lineno, ast.unparse(stmt).split('\n')[0][:70])
        # ---- W1: receiver
        prefix = chain[:-1] if last != '[]' else chain[:-2]
        ok_recv = False
        if root in own_names and all(p in ('ctx', 'context', '_mp') or p in CLASS_ATTRS for p in prefix):
            # `_mp`: the context's designated arbitrary-precision delegate (itself for an MPContext, the global mp for
            # fp / iv); a temporary change of the delegate's precision is restored before returning (C11)
            ok_recv = True
        elif root in fresh and not prefix:
            ok_recv = True
        elif root in own_names and not prefix:
            ok_recv = True
        if root in GLOBAL_CTX:
            ok_recv = False
        if not ok_recv:
            bad.append('W1 %s: store into the state of an object that is not the function\'s own context' % where)
            continue
        # ---- W2: containers are fresh
        if attr in ('_prec', '_prec_rounding') and last != '[]' and val is not None and touches_state:
            v = val
            if not (is_fresh_list(v) or isinstance(v, ast.Constant) or
                    (isinstance(v, (ast.Call, ast.BinOp, ast.Name, ast.Subscript)) and attr == '_prec' and cls and 'Interval' not in cls and not isinstance(v, ast.Name))):
                if not (attr == '_prec' and isinstance(v, (ast.Call, ast.Subscript, ast.BinOp))):
                    bad.append('W2 %s: precision state container is not a fresh list display' % where)
        if last == '_ctxdata' and val is not None:
            if not (isinstance(val, ast.List) and len(val.elts) == 3):
                bad.append('W2 %s: _ctxdata is not a fresh 3-element list display' % where)
            else:
                r3, c3 = root_and_chain(val.elts[2])
                if not (r3 in own_names and c3 in (['_prec_rounding'], ['_prec'])):
                    bad.append('W2 %s: the precision slot of _ctxdata is not the receiver\'s own state' % where)
        # ---- W3: numeric classes / context links
        if last in CLASS_ATTRS and len(chain) == 1 and val is not None:
            if not (isinstance(val, ast.Call) and isinstance(val.func, ast.Name) and val.func.id == 'type'):
                bad.append('W3 %s: numeric class of a context is not created by a fresh type(...) call' % where)
        if last == 'context' and val is not None:
            if not (isinstance(val, ast.Name) and val.id in own_names):
                bad.append('W3 %s: the context link of a numeric class is not the constructor\'s receiver' % where)
    # ---- W4: global contexts
    if not relpath.endswith('__init__.py'):
        for n in ast.walk(fn):
            if isinstance(n, ast.Name) and n.id in GLOBAL_CTX and isinstance(n.ctx, ast.Load):
                # a local / parameter of that name is not the global
                if n.id in args or any(isinstance(m, ast.Name) and m.id == n.id and isinstance(m.ctx, ast.Store) for m in ast.walk(fn)):
                    continue
                bad.append('W4 L%d: names the global context `%s`' % (n.lineno, n.id))
                break
    return bad, own_names


def run(repo):
    root = os.path.join(repo, 'mpmath')
    results = []          # (qualname, relpath, lineno, violations)
    nstores = 0
    for dp, dn, fns in os.walk(root):
        if 'tests' in dp.split(os.sep):
            continue
        for f in sorted(fns):
            if not f.endswith('.py'):
                continue
            path = os.path.join(dp, f)
            rel = os.path.relpath(path, repo)
            try:
                tree = ast.parse(open(path).read())
            except SyntaxError:
                continue

            def visit(node, qual, cls, inherited):
                for ch in ast.iter_child_nodes(node):
                    if isinstance(ch, ast.ClassDef):
                        visit(ch, qual + [ch.name], ch.name, ())
                    elif isinstance(ch, (ast.FunctionDef, ast.AsyncFunctionDef)):
                        v, own = analyze_function(ch, rel, cls, inherited)
                        results.append(('.'.join(qual + [ch.name]), rel, ch.lineno, v))
                        visit(ch, qual + [ch.name], cls, own)
                    else:
                        visit(ch, qual, cls, inherited)
            visit(tree, [os.path.splitext(rel)[0].replace(os.sep, '.')], None, ())
    return results


def clone_completeness(repo):
    """W5: returns (attributes assigned on mp in __init__.py, those missing from the MPContext constructors)"""
    init = ast.parse(open(os.path.join(repo, 'mpmath', '__init__.py')).read())
    attrs = []
    for n in init.body:
        if isinstance(n, ast.Assign):
            for t in n.targets:
                if isinstance(t, ast.Attribute) and isinstance(t.value, ast.Name) and t.value.id == 'mp':
                    attrs.append(t.attr)
    assigned = set()
    for fname, classes in (('ctx_mp.py', ('MPContext',)), ('ctx_mp_python.py', ('PythonMPContext',)), ('ctx_base.py', ('StandardBaseContext',))):
        tree = ast.parse(open(os.path.join(repo, 'mpmath', fname)).read())
        for c in tree.body:
            if isinstance(c, ast.ClassDef) and c.name in classes:
                for f in c.body:
                    if isinstance(f, ast.FunctionDef) and f.name in ('__init__', 'default', 'init_builtins', '_init_aliases'):
                        for m in ast.walk(f):
                            if isinstance(m, ast.Attribute) and isinstance(m.ctx, ast.Store) and isinstance(m.value, ast.Name) and m.value.id in ('ctx', 'self'):
                                assigned.add(m.attr)
                    if isinstance(f, ast.FunctionDef) and f.name == 'clone':
                        # attributes copied onto the freshly constructed context
                        fresh = fresh_locals(f)
                        for m in ast.walk(f):
                            if isinstance(m, ast.Attribute) and isinstance(m.ctx, ast.Store) and isinstance(m.value, ast.Name) and m.value.id in fresh:
                                assigned.add(m.attr)
    return attrs, [a for a in attrs if a not in assigned]


def count_state_stores(repo):
    n = 0
    root = os.path.join(repo, 'mpmath')
    for dp, dn, fns in os.walk(root):
        if 'tests' in dp.split(os.sep):
            continue
        for f in fns:
            if f.endswith('.py'):
                try:
                    tree = ast.parse(open(os.path.join(dp, f)).read())
                except SyntaxError:
                    continue
                for m in ast.walk(tree):
                    if isinstance(m, ast.Attribute) and isinstance(m.ctx, ast.Store) and m.attr in STATE_ATTRS | LINK_ATTRS:
                        n += 1
    return n

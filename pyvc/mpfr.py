"""Rigorous reference values from the system MPFR (libmpfr.so.6, pulled in by gcc) through ctypes.
Used only by the *bounded* tier: every reference value is computed twice at p+80 bits with
directed rounding (toward -inf and toward +inf), which gives a rigorous enclosure [lo, hi] of the
exact real value as exact rationals."""
import ctypes
from fractions import Fraction

_lib = None


class mpfr_t(ctypes.Structure):
    _fields_ = [('_mpfr_prec', ctypes.c_long), ('_mpfr_sign', ctypes.c_int), ('_mpfr_exp', ctypes.c_long),
                ('_mpfr_d', ctypes.c_void_p)]


RNDN, RNDZ, RNDU, RNDD = 0, 1, 2, 3


def lib():
    global _lib
    if _lib is None:
        _lib = ctypes.CDLL('/lib/x86_64-linux-gnu/libmpfr.so.6')
        _lib.mpfr_get_str.restype = ctypes.c_void_p
        _lib.mpfr_get_str.argtypes = [ctypes.c_char_p, ctypes.POINTER(ctypes.c_long), ctypes.c_int, ctypes.c_size_t,
                                      ctypes.POINTER(mpfr_t), ctypes.c_int]
        _lib.mpfr_free_str.argtypes = [ctypes.c_void_p]
        _lib.mpfr_set_str.argtypes = [ctypes.POINTER(mpfr_t), ctypes.c_char_p, ctypes.c_int, ctypes.c_int]
        _lib.mpfr_init2.argtypes = [ctypes.POINTER(mpfr_t), ctypes.c_long]
        _lib.mpfr_clear.argtypes = [ctypes.POINTER(mpfr_t)]
    return _lib


class Num(object):
    def __init__(self, prec):
        self.x = mpfr_t()
        lib().mpfr_init2(ctypes.byref(self.x), prec)

    def __del__(self):
        try:
            lib().mpfr_clear(ctypes.byref(self.x))
        except Exception:
            pass

    @property
    def ref(self):
        return ctypes.byref(self.x)


def from_fraction_dyadic(q, extra=8):
    """exact MPFR number for a dyadic rational q"""
    q = Fraction(q)
    num, den = q.numerator, q.denominator
    assert den & (den - 1) == 0, 'not dyadic'
    e = -(den.bit_length() - 1)
    n = Num(max(abs(num).bit_length(), 2) + extra)
    s = ('-' if num < 0 else '') + '%x' % abs(num) + 'p%d' % e
    r = lib().mpfr_set_str(n.ref, s.encode(), 16, RNDN)
    assert r == 0
    return n


def to_fraction(n):
    """exact value of an MPFR number (None for nan, +-inf as floats)"""
    l = lib()
    if l.mpfr_nan_p(n.ref):
        return None
    if l.mpfr_inf_p(n.ref):
        return float('inf') if l.mpfr_sgn(n.ref) > 0 else float('-inf')
    if l.mpfr_zero_p(n.ref):
        return Fraction(0)
    e = ctypes.c_long()
    p = l.mpfr_get_str(None, ctypes.byref(e), 2, 0, n.ref, RNDN)
    s = ctypes.string_at(p).decode()
    l.mpfr_free_str(p)
    neg = s.startswith('-')
    if neg:
        s = s[1:]
    m = int(s, 2)
    v = Fraction(m) * Fraction(2) ** (e.value - len(s))
    return -v if neg else v


def enclose(fname, args, prec, extra=80):
    """rigorous enclosure (lo, hi) of mpfr_<fname>(*args) as Fractions; args are dyadic Fractions
    or ints (passed as unsigned long when fname ends with _ui handling is done by the caller)"""
    l = lib()
    f = getattr(l, 'mpfr_' + fname)
    out = []
    for rnd in (RNDD, RNDU):
        r = Num(prec + extra)
        a = []
        for x in args:
            if isinstance(x, tuple) and x[0] == 'ui':
                a.append(ctypes.c_ulong(x[1]))
            elif isinstance(x, tuple) and x[0] == 'si':
                a.append(ctypes.c_long(x[1]))
            else:
                a.append(from_fraction_dyadic(x))
        cargs = [r.ref] + [(y.ref if isinstance(y, Num) else y) for y in a] + [rnd]
        f(*cargs)
        out.append(to_fraction(r))
    return out[0], out[1]


def const(fname, prec, extra=80):
    l = lib()
    f = getattr(l, 'mpfr_' + fname)
    out = []
    for rnd in (RNDD, RNDU):
        r = Num(prec + extra)
        f(r.ref, rnd)
        out.append(to_fraction(r))
    return out[0], out[1]


def selftest():
    lo, hi = const('const_pi', 64)
    assert lo < hi and Fraction(3141592653589793, 10 ** 15) < lo < hi < Fraction(3141592653589794, 10 ** 15)
    lo, hi = enclose('exp', [Fraction(1)], 64)
    assert Fraction(2718281828459045, 10 ** 15) < lo <= hi < Fraction(2718281828459046, 10 ** 15)
    lo, hi = enclose('sqrt', [Fraction(9, 4)], 64)
    assert lo == hi == Fraction(3, 2)
    return True

"""Hint lemmas: true statements about 2**k / bit length / products, callable from
contracts (ghost hints).  Natively they evaluate to True; symbolically they yield the ground
instance, which the executor assumes at the ghost point.  Lean proofs: /verif/lemmas/."""
from .spec import pow2, bitlen, implies, shr

# ---------------------------------------------------------------- hint lemmas (spec-callable)
# These are ordinary spec functions: natively they evaluate to True (they are theorems);
# symbolically they produce the instance, which the executor *assumes* at the ghost point.

def lemma_pow2_add(a, b):
    return implies(a >= 0 and b >= 0, pow2(a + b) == pow2(a) * pow2(b))


def lemma_pow2_sub(a, b):
    return implies(b >= 0 and a >= b, pow2(a) == pow2(a - b) * pow2(b))


def lemma_pow2_succ(a):
    return implies(a >= 0, pow2(a + 1) == 2 * pow2(a))


def lemma_bitlen_bounds(x, k):
    """uniqueness: pow2(k-1) <= x < pow2(k), k >= 1  ->  bitlen(x) == k"""
    return implies(k >= 1 and pow2(k - 1) <= x and x < pow2(k), bitlen(x) == k)


def lemma_bitlen_mul_pow2(x, k):
    """bitlen(x * 2**k) == bitlen(x) + k for x > 0, k >= 0"""
    return implies(x > 0 and k >= 0, bitlen(x * pow2(k)) == bitlen(x) + k)


def lemma_bitlen_mono(x, y):
    return implies(0 <= x and x <= y, bitlen(x) <= bitlen(y))


def lemma_mul_mono(a, b, c, d):
    """0 <= a <= b, 0 <= c <= d  ->  a*c <= b*d"""
    return implies(0 <= a and a <= b and 0 <= c and c <= d, a * c <= b * d)


def lemma_mul_lt(a, b, c, d):
    """0 <= a < b, 0 <= c < d  ->  a*c < b*d"""
    return implies(0 <= a and a < b and 0 <= c and c < d, a * c < b * d)


def lemma_odd_pow2_unique(a, i, b, j):
    """a, b odd, a*2**i == b*2**j (i, j >= 0)  ->  a == b and i == j"""
    return implies(a % 2 == 1 and b % 2 == 1 and i >= 0 and j >= 0 and a * pow2(i) == b * pow2(j),
                   a == b and i == j)


def lemma_pow2_mod61(k):
    """2**k == 2**(k mod 61)  (mod 2**61 - 1),  k >= 0"""
    return implies(k >= 0, pow2(k) % 2305843009213693951 == pow2(k % 61) % 2305843009213693951)


def lemma_shr_shr(x, a, b):
    """(x >> a) >> b == x >> (a+b)"""
    return implies(a >= 0 and b >= 0, shr(shr(x, a), b) == shr(x, a + b))


HINT_LEMMAS = [lemma_pow2_add, lemma_pow2_sub, lemma_pow2_succ, lemma_bitlen_bounds,
               lemma_bitlen_mul_pow2, lemma_bitlen_mono, lemma_mul_mono, lemma_mul_lt,
               lemma_odd_pow2_unique, lemma_pow2_mod61, lemma_shr_shr]


def selfcheck_lemmas(bound=40):
    """bounded exhaustive native evaluation of every hint lemma (they must all be True)."""
    import itertools
    n = 0
    rng = range(-2, bound)
    small = range(-2, 12)
    for a in rng:
        assert lemma_pow2_succ(a) if a >= 0 else True
        for b in rng:
            if a >= 0 and b >= 0:
                assert lemma_pow2_add(a, b)
                assert lemma_shr_shr(12345678901234567890 + a, a, b)
                assert lemma_shr_shr(-(987654321 + a), a, b)
            if b >= 0 and a >= b:
                assert lemma_pow2_sub(a, b)
            n += 3
    for x in range(0, 600):
        for k in range(0, 12):
            assert lemma_bitlen_bounds(x, k)
            assert lemma_bitlen_mul_pow2(x, k)
            n += 2
        for y in range(0, 80):
            assert lemma_bitlen_mono(x, y)
            n += 1
    for a, b, c, d in itertools.product(small, repeat=4):
        assert lemma_mul_mono(a, b, c, d)
        assert lemma_mul_lt(a, b, c, d)
        n += 2
    for a in range(1, 40, 2):
        for b in range(1, 40, 2):
            for i in range(0, 6):
                for j in range(0, 6):
                    assert lemma_odd_pow2_unique(a, i, b, j)
                    n += 1
    for k in range(0, 400):
        assert lemma_pow2_mod61(k)
        n += 1
    for x in range(0, 400):
        for y in range(0, 25):
            assert lemma_isqrt_unique(x, y)
            n += 1
    for a in range(-3, 30):
        for b in range(-3, 30):
            assert lemma_sq_mono(a, b) and lemma_sq_mono_lt(a, b) and lemma_sq_cancel(a, b)
            assert a < 0 or b < 0 or lemma_pow2_le(a, b)
            assert lemma_mul_eq2(a, b, a + 1, b - 1)
            n += 4
    for a in range(-2, 60):
        assert lemma_cfix_nonneg(a)
        for b in range(0, a + 1):
            assert lemma_cfix_shift(a, b)
            n += 1
    return n


def lemma_mul_cancel_lt(a, b, p):
    """p > 0, a*p < b*p  ->  a < b"""
    return implies(p > 0 and a * p < b * p, a < b)


def lemma_mul_cancel_le(a, b, p):
    """p > 0, a*p <= b*p  ->  a <= b"""
    return implies(p > 0 and a * p <= b * p, a <= b)


def lemma_div_bounds(x, q, r, p, lo, hi):
    """x == q*p + r, 0 <= r < p, lo*p <= x < hi*p  ->  lo <= q < hi"""
    return implies(x == q * p + r and 0 <= r and r < p and lo * p <= x and x < hi * p,
                   lo <= q and q < hi)


HINT_LEMMAS += [lemma_mul_cancel_lt, lemma_mul_cancel_le, lemma_div_bounds]


def lemma_mul_eq(a, b, p):
    """a == b  ->  a*p == b*p   (points the solver at the two product terms)"""
    return implies(a == b, a * p == b * p)


HINT_LEMMAS += [lemma_mul_eq]


def lemma_bitlen_mul(x, y):
    """x, y > 0  ->  bitlen(x*y) in {bitlen(x)+bitlen(y)-1, bitlen(x)+bitlen(y)}"""
    return implies(x > 0 and y > 0,
                   bitlen(x * y) == bitlen(x) + bitlen(y) or bitlen(x * y) == bitlen(x) + bitlen(y) - 1)


def lemma_shr_bitlen(x):
    """x > 0  ->  x >> (bitlen(x)-1) == 1  and  x >> bitlen(x) == 0"""
    return implies(x > 0, shr(x, bitlen(x) - 1) == 1 and shr(x, bitlen(x)) == 0)


def lemma_odd_mul(a, b):
    """a, b odd -> a*b odd"""
    return implies(a % 2 == 1 and b % 2 == 1, (a * b) % 2 == 1)


def lemma_mul_pos(a, b):
    return implies(a > 0 and b > 0, a * b > 0)


HINT_LEMMAS += [lemma_bitlen_mul, lemma_shr_bitlen, lemma_odd_mul, lemma_mul_pos]


def lemma_even_mul(a, p):
    """p even -> a*p even"""
    return implies(p % 2 == 0, (a * p) % 2 == 0)


HINT_LEMMAS += [lemma_even_mul]


def lemma_mul_lt_r(a, b, p):
    """p > 0, a < b -> a*p < b*p"""
    return implies(p > 0 and a < b, a * p < b * p)


def lemma_mul_le_r(a, b, p):
    """p >= 0, a <= b -> a*p <= b*p"""
    return implies(p >= 0 and a <= b, a * p <= b * p)


HINT_LEMMAS += [lemma_mul_lt_r, lemma_mul_le_r]


def lemma_bitlen_2x1(q):
    """q >= 1 -> bitlen(2q+1) == bitlen(q)+1 and bitlen(2q) == bitlen(q)+1"""
    return implies(q >= 1, bitlen(2 * q + 1) == bitlen(q) + 1 and bitlen(2 * q) == bitlen(q) + 1)


def lemma_mul_assoc3(a, b, c):
    """(a*b)*c == a*(b*c) -- names the product terms for the solver"""
    return (a * b) * c == a * (b * c)


HINT_LEMMAS += [lemma_bitlen_2x1, lemma_mul_assoc3]


def lemma_mul_cancel_eq(a, b, p):
    """p > 0, a*p == b*p -> a == b"""
    return implies(p > 0 and a * p == b * p, a == b)


def lemma_mul_distrib(a, b, p):
    """(a + b)*p == a*p + b*p"""
    return (a + b) * p == a * p + b * p


def lemma_bitlen_ge(x, k):
    """x >= 2**k (k >= 0) -> bitlen(x) >= k+1"""
    return implies(k >= 0 and x >= pow2(k), bitlen(x) >= k + 1)


HINT_LEMMAS += [lemma_mul_cancel_eq, lemma_mul_distrib, lemma_bitlen_ge]


def lemma_sq_expand(y):
    """(y+1)**2 == y**2 + 2y + 1 and (y-1)**2 == y**2 - 2y + 1"""
    return (y + 1) * (y + 1) == y * y + 2 * y + 1 and (y - 1) * (y - 1) == y * y - 2 * y + 1


HINT_LEMMAS += [lemma_sq_expand]


# ---------------------------------------------------------------- fixed-point constants (C17)
from .spec import cfix                                   # noqa: E402


def lemma_cfix_shift(a, b):
    """nested floors: floor(floor(c*2**a) / 2**(a-b)) == floor(c*2**b)  for a >= b >= 0"""
    return implies(a >= b and b >= 0, shr(cfix(a), a - b) == cfix(b))


def lemma_cfix_nonneg(a):
    """c > 0"""
    return cfix(a) >= 0


HINT_LEMMAS += [lemma_cfix_shift, lemma_cfix_nonneg]


# ---------------------------------------------------------------- monotone real functions (C14)
from .spec import r_fun                                  # noqa: E402


def lemma_r_fun_mono(k, a, b):
    """exp, log (on positive reals), sqrt (on non-negative reals) and atan are non-decreasing"""
    return implies(a <= b and (k != 1 or a > 0) and (k != 2 or a >= 0), r_fun(k, a) <= r_fun(k, b))


HINT_LEMMAS += [lemma_r_fun_mono]


def lemma_pow2_le(a, b):
    """0 <= a <= b -> pow2(a) <= pow2(b)"""
    return implies(0 <= a and a <= b, pow2(a) <= pow2(b))


HINT_LEMMAS += [lemma_pow2_le]


def lemma_mul_eq2(a, b, c, d):
    """a == b, c == d  ->  a*c == b*d   (congruence of products, spelled out for the solver)"""
    return implies(a == b and c == d, a * c == b * d)


HINT_LEMMAS += [lemma_mul_eq2]


# ---------------------------------------------------------------- square roots
from .spec import isqrt                                  # noqa: E402


def lemma_isqrt_unique(x, y):
    """y >= 0, y*y <= x < (y+1)*(y+1)  ->  y == isqrt(x)"""
    return implies(y >= 0 and y * y <= x and x < (y + 1) * (y + 1), y == isqrt(x))


def lemma_sq_mono(a, b):
    """0 <= a <= b -> a*a <= b*b"""
    return implies(0 <= a and a <= b, a * a <= b * b)


def lemma_sq_mono_lt(a, b):
    """0 <= a < b -> a*a < b*b"""
    return implies(0 <= a and a < b, a * a < b * b)


def lemma_sq_cancel(a, b):
    """a, b >= 0, a*a == b*b -> a == b"""
    return implies(0 <= a and 0 <= b and a * a == b * b, a == b)


HINT_LEMMAS += [lemma_isqrt_unique, lemma_sq_mono, lemma_sq_mono_lt, lemma_sq_cancel]

"""Guarded-return contracts (C29 / C35): control-flow postconditions of the form

    every value returned by F at a `return <name>` statement passed the test T (with outcome o)
    on the same path, after the last assignment to <name>

decided by enumerating the paths of the *real* function body with the tolerant symbolic executor
(everything unmodelled is havocked, so every syntactically possible path is explored) and reading
the branch decisions recorded on each returning path.  The data a test refers to is not
interpreted: the contract is about which checks dominate which returns, for all inputs."""
import ast
import os
import re

import z3

from .symex import Engine, PathExec, State, Frame, RET, RAISE, NEXT
from .vals import UnkV, BoolV, ConstV


def norm_src(node):
    return re.sub(r'\s+', ' ', ast.unparse(node)).strip()


class GuardEngine(Engine):
    def __init__(self):
        Engine.__init__(self, safety=False, tolerant=True, feas_rlimit=50000, axioms_fn=None)
        self.prune_spec = False
        self.use_contracts = False


def find_function(tree, qual):
    parts = qual.split('.')
    node = tree
    for p in parts:
        nxt = None
        for ch in ast.walk(node):
            if isinstance(ch, (ast.FunctionDef, ast.ClassDef)) and ch.name == p and ch is not node:
                nxt = ch
                break
        if nxt is None:
            return None
        node = nxt
    return node if isinstance(node, ast.FunctionDef) else None


def analyze(repo, spec):
    path = os.path.join(repo, 'mpmath', spec['file'])
    tree = ast.parse(open(path).read())
    fn = find_function(tree, spec['function'])
    if fn is None:
        return {'status': 'anchor-missing', 'reason': 'function %s not found' % spec['function']}
    # tests by line
    tests = {}
    for n in ast.walk(fn):
        if isinstance(n, (ast.If, ast.While)):
            tests[n.lineno] = norm_src(n.test)
    needs = [(re.sub(r'\s+', ' ', t).strip(), o) for t, o in spec['need']]
    for t, o in needs:
        if not any(t == src for src in tests.values()):
            return {'status': 'anchor-missing', 'reason': 'guard test `%s` not found in %s' % (t, spec['function'])}
    stores = sorted(n.lineno for n in ast.walk(fn) if isinstance(n, ast.Name) and n.id == spec['returns']
                    and isinstance(n.ctx, ast.Store))
    eng = GuardEngine()
    px = PathExec(eng)
    st = State()
    for a in fn.args.args + fn.args.kwonlyargs:
        st.env[a.arg] = UnkV('param %s' % a.arg)
    for k, v in spec.get('fix_params', {}).items():
        st.env[k] = BoolV(v) if isinstance(v, bool) else ConstV(v)
    if fn.args.kwarg:
        st.env[fn.args.kwarg.arg] = UnkV('kwargs')
    if fn.args.vararg:
        st.env[fn.args.vararg.arg] = UnkV('varargs')
    frame = Frame({}, None, None)
    bad = []
    nret = 0
    npaths = 0
    exempt = [re.sub(r'\s+', ' ', t).strip() for t in spec.get('exempt_if_taken', [])]
    for st2, sig, val in px.block(fn.body, st, frame):
        npaths += 1
        if npaths > 20000:
            return {'status': 'unknown', 'reason': 'path budget'}
        if sig != RET:
            continue
        retline = None
        for t in reversed(st2.trace):
            if t.endswith(':return'):
                retline = int(t[1:].split(':')[0])
                break
        if retline is None:
            continue
        rnode = next((n for n in ast.walk(fn) if isinstance(n, ast.Return) and n.lineno == retline), None)
        if rnode is None or rnode.value is None:
            continue
        if isinstance(rnode.value, ast.Constant) and rnode.value.value is None:
            continue
        if not (isinstance(rnode.value, ast.Name) and rnode.value.id == spec['returns']):
            if spec.get('other_returns_ok') and norm_src(rnode.value) in spec['other_returns_ok']:
                continue
            bad.append({'return_line': retline, 'why': 'returns `%s`, which the contract does not cover' % norm_src(rnode.value)})
            continue
        nret += 1
        decisions = []
        for t in st2.trace:
            m = re.match(r'L(\d+):([TF])$', t)
            if m:
                decisions.append((int(m.group(1)), m.group(2)))
        if any(tests.get(ln) in exempt and o == 'T' for ln, o in decisions):
            continue
        last_store = max([s for s in stores if s <= retline] or [0])
        for t, o in needs:
            mentions = re.search(r'\b%s\b' % re.escape(spec['returns']), t) is not None
            ok = any(tests.get(ln) == t and oo == o and (ln >= last_store or not mentions) for ln, oo in decisions)
            if not ok:
                bad.append({'return_line': retline, 'why': 'path returns `%s` without `%s` having evaluated to %s after its last assignment (line %s)' % (
                    spec['returns'], t, {'T': 'True', 'F': 'False'}[o], last_store), 'trace': st2.trace[-10:]})
                break
    for chk in spec.get('syntactic', []):
        r = chk(fn)
        if r:
            bad.append({'return_line': None, 'why': r})
    if nret == 0 and not bad:
        return {'status': 'anchor-missing', 'reason': 'no `return %s` reached' % spec['returns']}
    return {'status': 'proved' if not bad else 'violated', 'bad': bad[:3], 'returning_paths': nret, 'paths': npaths}


def vec_is_list_of_ints(fn):
    """pslq: the returned vector is built as [int(...) for ...]"""
    for n in ast.walk(fn):
        if isinstance(n, ast.Assign) and any(isinstance(t, ast.Name) and t.id == 'vec' for t in n.targets):
            v = n.value
            if not (isinstance(v, ast.ListComp) and isinstance(v.elt, ast.Call) and isinstance(v.elt.func, ast.Name)
                    and v.elt.func.id == 'int'):
                return 'vec is not built as a list of int(...) values (line %d)' % n.lineno
    return None


SPECS = {
    'C35': [dict(name='pslq: every returned vector passed max|c_k| < maxcoeff and err < tol, and is a list of Python ints',
                 file='identification.py', function='pslq', returns='vec',
                 need=[('max((abs(v) for v in vec)) < maxcoeff', 'T'), ('err < tol', 'T')],
                 syntactic=[vec_is_list_of_ints])],
    'C29': [dict(name='findroot(verify=True): every returned x passed `not norm(f(*xl))**2 > tol` or is the starting point with norm(f(x0)) == 0',
                 file='calculus/optimization.py', function='findroot', returns='x',
                 fix_params={'verify': True},
                 need=[('verify and norm(f(*xl)) ** 2 > tol', 'F')],
                 other_returns_ok=['ctx.matrix(x0)', 'x0[0]'])],
}


# ------------------------------------------------------------------ keyword-argument dataflow contracts

class KwargsV(ConstV):
    pass


class _KW(object):
    """symbolic **kwargs: membership of each key is one Boolean per key, kwargs[k] is one opaque
    object per key"""

    def __init__(self):
        self.member = {}
        self.items = {}

    def __contains__(self, k):
        raise TypeError


class KwEngine(GuardEngine):
    def __init__(self, kwname, selfname):
        GuardEngine.__init__(self)
        self.kwname = kwname
        self.selfname = selfname
        self.kw = _KW()

    def on_setattr(self, px, target, v, st, frame, lineno):
        if isinstance(target.value, ast.Name):
            st.heap[('attr', target.value.id, target.attr)] = v
            return True
        return False


def analyze_kwargs(repo, spec):
    """contract: for each key k in spec['bind']:  k in kwargs  =>  self.<k> is kwargs[k]  at exit"""
    from .symex import Pure
    path = os.path.join(repo, 'mpmath', spec['file'])
    tree = ast.parse(open(path).read())
    fn = find_function(tree, spec['function'])
    if fn is None:
        return {'status': 'anchor-missing', 'reason': 'function %s not found' % spec['function']}
    kwname = fn.args.kwarg.arg if fn.args.kwarg else None
    if kwname is None:
        return {'status': 'anchor-missing', 'reason': 'no **kwargs'}
    eng = KwEngine(kwname, fn.args.args[0].arg)
    member = {}
    items = {}
    orig_contains = Pure.contains
    orig_subscript = Pure.subscript

    def contains(self, cont, x):
        if isinstance(cont, KwargsV) and isinstance(x, ConstV) and isinstance(x.obj, str):
            return member.setdefault(x.obj, z3.Bool('in_kwargs_%s' % x.obj))
        return orig_contains(self, cont, x)

    def subscript(self, base, idx):
        if isinstance(base, KwargsV) and isinstance(idx, ConstV) and isinstance(idx.obj, str):
            return items.setdefault(idx.obj, UnkV('kwargs[%r]' % idx.obj))
        return orig_subscript(self, base, idx)
    Pure.contains = contains
    Pure.subscript = subscript
    try:
        px = PathExec(eng)
        st = State()
        for a in fn.args.args:
            st.env[a.arg] = UnkV('param %s' % a.arg)
        st.env[kwname] = KwargsV('kwargs')
        frame = Frame({}, None, None)
        bad = []
        n = 0
        for st2, sig, val in px.block(fn.body, st, frame):
            if sig == RAISE:
                continue
            n += 1
            s = z3.Solver()
            s.add(*st2.pc)
            for k in spec['bind']:
                inb = member.get(k)
                if inb is None:
                    bad.append({'why': 'key %r is never tested with `in kwargs`' % k})
                    continue
                s.push()
                s.add(inb)
                if s.check() == z3.sat:       # a path on which the caller supplied k
                    got = st2.heap.get(('attr', eng.selfname, k))
                    if got is not items.get(k):
                        bad.append({'why': 'on a path where %r is in kwargs, self.%s is bound to %s instead of kwargs[%r]' % (
                            k, k, getattr(got, 'tag', repr(got)), k), 'trace': st2.trace[-8:]})
                s.pop()
        return {'status': 'proved' if not bad else 'violated', 'bad': bad[:3], 'paths': n, 'returning_paths': n}
    finally:
        Pure.contains = orig_contains
        Pure.subscript = orig_subscript


SPECS['C29'].append(dict(name="MNewton.__init__: a user-supplied df / d2f keyword is the one that is used",
                         file='calculus/optimization.py', function='MNewton.__init__', kind='kwargs',
                         bind=['df', 'd2f'], replay=lambda mp: _replay_mnewton(mp)))


def _replay_mnewton(mp):
    from mpmath.calculus.optimization import MNewton
    s1, s2 = (lambda x: 1), (lambda x: 2)
    o = MNewton(mp, lambda x: x, [mp.mpf(1)], df=s1, d2f=s2)
    if o.df is not s1 or o.d2f is not s2:
        return 'MNewton(df=s1, d2f=s2): df is s1 = %s, d2f is s2 = %s' % (o.df is s1, o.d2f is s2)
    return None

"""Per-function verification: build the symbolic entry state from the contract, run the path
executor over the real body, turn outcomes into named obligations, discharge them with z3
(+ model-guided lemma refinement, + cvc5), and replay counter-models on the real function."""
import inspect
import itertools
import os
import subprocess
import tempfile
import time
import traceback

import z3

from . import contract as C
from . import spec
from .lemmas import axioms_for, collect
from .symex import (Engine, PathExec, Pure, State, Frame, get_funcinfo, make_shape, pick_env, ct_globals,
                    RET, RAISE, NEXT, TRUE, FALSE)
from .vals import (IntV, BoolV, TupV, ConstV, UnkV, ExcV, int_term, lift, simp, pow2_f, bitlen_f,
                   reset_fresh, mk_and)

DEFAULT_RLIMIT = int(os.environ.get('PYVC_RLIMIT', '30000000'))


def default_shape(name):
    if name in ('prec', 'wp', 'n', 'k', 'exp', 'man', 'bc', 'sign', 'x', 'offset'):
        return 'int'
    return 'any'


def enum_space(ct):
    """list of dicts: every combination of the enumerated (case-split) parameters"""
    names, spaces = [], []
    for p in ct.params:
        if p in ct.enums:
            names.append(p)
            spaces.append(list(ct.enums[p]))
        elif ct.shapes.get(p) == 'rnd' or (p == 'rnd' and p not in ct.shapes):
            names.append(p)
            spaces.append(list(spec.RND5))
    base = [dict(zip(names, combo)) for combo in itertools.product(*spaces)] or [{}]
    out = list(base)
    for var in ct.variants:
        for b in base:
            d = dict(b)
            d.update(var)
            out.append(d)
    return out


def entry_env(ct, enum_assign):
    env = {}
    for p in ct.params:
        if p in enum_assign:
            env[p] = lift(enum_assign[p])
            continue
        sh = ct.shapes.get(p, default_shape(p))
        prm = ct.sig.parameters[p]
        if sh == 'default':
            env[p] = lift(prm.default)
        else:
            env[p] = make_shape(sh, p)
    return env


def val_to_py(v, model):
    """concrete Python value of a symbolic value under a z3 model"""
    if isinstance(v, IntV):
        r = model.eval(v.t, model_completion=True)
        return r.as_long() if z3.is_int_value(r) else 0
    if isinstance(v, BoolV):
        return z3.is_true(model.eval(v.t, model_completion=True))
    if isinstance(v, TupV):
        items = [val_to_py(x, model) for x in v.items]
        return tuple(items) if v.kind == 'tuple' else items
    if isinstance(v, ConstV):
        return v.obj
    return None


class Result(dict):
    pass


def refine_with_model(solver, formulas, model, seen):
    """model-guided instantiation: pin pow2 / bitlen terms to their true values at the model's
    arguments.  Returns number of facts added."""
    found = collect(formulas, [pow2_f, bitlen_f])
    added = 0
    for t in found['pow2'].values():
        a = t.arg(0)
        ka = model.eval(a, model_completion=True)
        pv = model.eval(t, model_completion=True)
        if not z3.is_int_value(ka):
            continue
        k = ka.as_long()
        if 0 <= k <= 20000:
            true = 1 << k
            if not (z3.is_int_value(pv) and pv.as_long() == true):
                key = ('p', t.get_id(), k)
                if key not in seen:
                    seen.add(key)
                    solver.add(z3.Implies(a == k, t == z3.IntVal(true)))
                    added += 1
    for t in found['bitlen'].values():
        x = t.arg(0)
        kx = model.eval(x, model_completion=True)
        bv = model.eval(t, model_completion=True)
        if not z3.is_int_value(kx):
            continue
        k = kx.as_long()
        if k >= 0 and k.bit_length() <= 20000:
            true = k.bit_length()
            if not (z3.is_int_value(bv) and bv.as_long() == true):
                key = ('b', t.get_id(), k)
                if key not in seen:
                    seen.add(key)
                    solver.add(z3.Implies(x == z3.IntVal(k), t == true))
                    added += 1
    return added


def flatten(fs):
    out, seen = [], set()
    stack = list(reversed(fs))
    while stack:
        f = stack.pop()
        if z3.is_and(f):
            stack.extend(reversed(f.children()))
            continue
        if z3.is_true(f):
            continue
        i = f.get_id()
        if i in seen:
            continue
        seen.add(i)
        out.append(f)
    return out


def is_uconst(t):
    return z3.is_const(t) and t.decl().kind() == z3.Z3_OP_UNINTERPRETED


def occurs(x, t):
    xid = x.get_id()
    seen = set()
    stack = [t]
    while stack:
        u = stack.pop()
        i = u.get_id()
        if i == xid:
            return True
        if i in seen:
            continue
        seen.add(i)
        stack.extend(u.children())
    return False


def term_size(t, limit=12):
    n = 0
    stack = [t]
    while stack:
        u = stack.pop()
        n += 1
        if n > limit:
            return n
        stack.extend(u.children())
    return n


def small_term(t):
    """safe to substitute for a variable: small and without products of non-constants"""
    if term_size(t) > 8:
        return False
    if z3.is_app(t) and t.decl().kind() == z3.Z3_OP_MUL and t.num_args() == 2 and \
            all(is_uconst(c) for c in t.children()):
        return True         # a plain monomial x*y
    if z3.is_app(t) and t.decl().kind() == z3.Z3_OP_UNINTERPRETED and t.num_args() == 1 and \
            small_term(t.arg(0)):
        return True         # bitlen(x*y), pow2(x+y)
    stack = [t]
    while stack:
        u = stack.pop()
        if z3.is_app(u) and u.decl().kind() == z3.Z3_OP_MUL:
            if sum(0 if z3.is_int_value(c) else 1 for c in u.children()) > 1:
                return False
        if z3.is_app(u) and u.decl().kind() in (z3.Z3_OP_ITE, z3.Z3_OP_IDIV, z3.Z3_OP_MOD):
            return False
        stack.extend(u.children())
    return True


def preprocess(fs, rounds=6):
    """equivalence-preserving simplification: flatten conjunctions, propagate unit literals
    into the other formulas, substitute solved equalities  x == t  (x an uninterpreted
    constant, t small) everywhere else; the units themselves are kept, so every model of the
    result is a model of the input and vice versa."""
    fs = flatten([z3.simplify(f) for f in fs])
    for _ in range(rounds):
        subs = []
        unit_ids = set()
        for f in fs:
            if z3.is_not(f):
                a = f.arg(0)
                subs.append((a, z3.BoolVal(False)))
                if z3.is_eq(a):
                    subs.append((a.arg(1) == a.arg(0), z3.BoolVal(False)))
                unit_ids.add(f.get_id())
            elif z3.is_eq(f) and f.arg(0).sort() == z3.IntSort():
                l, r = f.arg(0), f.arg(1)
                if is_uconst(l) and small_term(r) and not occurs(l, r):
                    subs.append((l, r))
                elif is_uconst(r) and small_term(l) and not occurs(r, l):
                    subs.append((r, l))
                else:
                    subs.append((f, z3.BoolVal(True)))
                    subs.append((r == l, z3.BoolVal(True)))
                unit_ids.add(f.get_id())
            elif z3.is_app(f) and not z3.is_or(f) and not z3.is_implies(f) and \
                    f.decl().kind() != z3.Z3_OP_ITE:
                subs.append((f, z3.BoolVal(True)))
                unit_ids.add(f.get_id())
        if not subs:
            break
        changed = False
        new = []
        eqs = [(a, b) for a, b in subs if a.sort() == z3.IntSort()]
        for f in fs:
            if f.get_id() in unit_ids:
                if eqs:
                    mine = [(a, b) for a, b in eqs
                            if not (z3.is_eq(f) and (f.arg(0).get_id() == a.get_id()
                                                     or f.arg(1).get_id() == a.get_id()))]
                    g = z3.simplify(z3.substitute(f, *mine)) if mine else f
                    if g.get_id() != f.get_id():
                        changed = True
                    new.append(g)
                else:
                    new.append(f)
                continue
            g = z3.simplify(z3.substitute(f, *subs))
            if g.get_id() != f.get_id():
                changed = True
            new.append(g)
        fs = flatten(new)
        if any(z3.is_false(f) for f in fs):
            return [z3.BoolVal(False)]
        if not changed:
            break
    return fs


def goal_conjuncts(goal):
    g = z3.simplify(goal)
    out = []
    stack = [g]
    while stack:
        f = stack.pop()
        if z3.is_and(f):
            stack.extend(reversed(f.children()))
        elif z3.is_implies(f) and z3.is_and(f.arg(1)):
            for c in f.arg(1).children():
                stack.append(z3.Implies(f.arg(0), c))
        elif not z3.is_true(f):
            out.append(f)
    return out


def ite_conditions(fs, limit=60):
    out = {}
    seen = set()
    stack = list(fs)
    while stack and len(out) < limit:
        t = stack.pop()
        i = t.get_id()
        if i in seen:
            continue
        seen.add(i)
        if z3.is_app_of(t, z3.Z3_OP_ITE):
            c = t.arg(0)
            out.setdefault(c.get_id(), c)
        stack.extend(t.children())
    return list(out.values())


def has_ite(t):
    seen = set()
    stack = [t]
    while stack:
        u = stack.pop()
        i = u.get_id()
        if i in seen:
            continue
        seen.add(i)
        if z3.is_app_of(u, z3.Z3_OP_ITE):
            return True
        stack.extend(u.children())
    return False


def resolve_ites(fs, rlimit=300000):
    """decide If-conditions that are determined by the If-free formulas (premises; one cheap
    solver query each, unknown = leave alone) and substitute them in the *other* formulas
    only.  Equivalence preserving: premises are kept verbatim and entail the replaced
    condition."""
    premises = [f for f in fs if not has_ite(f)]
    targets = [f for f in fs if has_ite(f)]
    if not targets or not premises:
        return fs
    conds = ite_conditions(targets)
    s = z3.Solver()
    s.set('rlimit', rlimit)
    s.set('timeout', 500)           # nlsat does not honour rlimit; unknown = leave the condition alone
    s.add(*premises)
    subs = []
    t_begin = time.time()
    for c in conds:
        if time.time() - t_begin > 15:
            break                   # overall budget: the remaining conditions are left alone
        s.push()
        s.add(z3.Not(c))
        r = s.check()
        s.pop()
        if r == z3.unsat:
            subs.append((c, z3.BoolVal(True)))
            continue
        s.push()
        s.add(c)
        r = s.check()
        s.pop()
        if r == z3.unsat:
            subs.append((c, z3.BoolVal(False)))
    if not subs:
        return fs
    return premises + [z3.simplify(z3.substitute(f, *subs)) for f in targets]


def uf_args(fs):
    found = collect(fs, [pow2_f, bitlen_f])
    out = {}
    for grp in found.values():
        for t in grp.values():
            a = t.arg(0)
            if not z3.is_int_value(a):
                out.setdefault(a.get_id(), a)
    return list(out.values())


def merge_equal_args(fs, rlimit=400000, max_args=40):
    """arguments of pow2/bitlen that the If-free premises force to be equal are rewritten to a
    common representative inside the other formulas (so that structurally equal sub-formulas
    of an assumed callee contract and of the goal become syntactically equal).  Candidates come
    from one model of the premises; each merge is justified by an unsat query."""
    premises = [f for f in fs if not has_ite(f)]
    targets = [f for f in fs if has_ite(f)]
    if not targets or not premises:
        return fs
    args = uf_args(fs)
    if len(args) < 2 or len(args) > max_args:
        return fs
    s = z3.Solver()
    s.set('rlimit', rlimit)
    s.add(*premises)
    if s.check() != z3.sat:
        return fs
    m = s.model()
    groups = {}
    for a in args:
        v = m.eval(a, model_completion=True)
        if z3.is_int_value(v):
            groups.setdefault(v.as_long(), []).append(a)
    subs = []
    for v, grp in groups.items():
        if len(grp) < 2:
            continue
        grp.sort(key=lambda t: (term_size(t, 200), str(t)))
        rep = grp[0]
        for a in grp[1:]:
            s.push()
            s.add(a != rep)
            r = s.check()
            s.pop()
            if r == z3.unsat:
                subs.append((a, rep))
    if not subs:
        return fs
    return premises + [z3.simplify(z3.substitute(f, *subs)) for f in targets]


def solve(pc, goal, rlimit=DEFAULT_RLIMIT, use_cvc5=False, max_refine=40):
    """prove pc => goal.  A conjunctive goal is proved conjunct by conjunct (earlier
    conjuncts may be assumed for later ones).  status in proved / sat / unknown"""
    parts = goal_conjuncts(goal)
    if len(parts) <= 1:
        return solve1(pc, goal, rlimit, use_cvc5, max_refine)
    total = {'solver': 'z3', 'time_s': 0.0, 'parts': len(parts), 'axioms': 0, 'refine_rounds': 0}
    pc = list(pc)
    for i, g in enumerate(parts):
        st, info = solve1(pc, g, rlimit, use_cvc5, max_refine)
        total['time_s'] = round(total['time_s'] + (info.get('time_s') or 0), 4)
        total['rlimit_used'] = info.get('rlimit_used')
        total['axioms'] = max(total['axioms'], info.get('axioms', 0))
        if info.get('solver') == 'cvc5':
            total['solver'] = 'z3+cvc5'
        if st != 'proved':
            info = dict(info)
            info['failed_conjunct'] = str(g)[:400]
            info['time_s'] = total['time_s']
            return st, info
        pc.append(g)
    return 'proved', total


def fold_pow2(fs):
    found = collect(fs, [pow2_f])
    subs = []
    for t in found['pow2'].values():
        a = z3.simplify(t.arg(0))
        if z3.is_int_value(a) and 0 <= a.as_long() <= 4096:
            subs.append((t, z3.IntVal(1 << a.as_long())))
    if not subs:
        return fs
    return [z3.simplify(z3.substitute(f, *subs)) for f in fs]


SEEDS = [0, 7, 23]


def solve1(pc, goal, rlimit=DEFAULT_RLIMIT, use_cvc5=False, max_refine=40):
    """returns (status, info) with status in proved / sat / unknown"""
    fs = list(pc) + [z3.Not(goal)]
    if os.environ.get('PYVC_NOPRE') != '1':
        fs = preprocess(fs)
        if not (len(fs) == 1 and z3.is_false(fs[0])):
            fs2 = resolve_ites(fs)
            if fs2 is not fs:
                fs = preprocess(fs2)
            fs3 = merge_equal_args(fs)
            if fs3 is not fs:
                fs = preprocess(fs3)
            fs4 = fold_pow2(fs)
            if fs4 is not fs:
                fs = preprocess(fs4)
    ax = axioms_for(fs)
    t0 = time.time()
    info = {'solver': 'z3', 'axioms': len(ax)}
    allf = fs + ax
    # deterministic portfolio: the same query under a fixed list of random seeds; the first
    # definite answer wins (an unlucky heuristic choice must not turn into an alarm)
    for attempt, seed in enumerate(SEEDS):
        s = z3.Solver()
        s.set('rlimit', rlimit)
        s.set('timeout', int(os.environ.get('PYVC_TIMEOUT_MS', '60000')))
        s.set('random_seed', seed)
        s.add(*fs)
        s.add(*ax)
        seen = set()
        r = s.check()
        rounds = 0
        while r == z3.sat and rounds < max_refine:
            m = s.model()
            n = refine_with_model(s, allf, m, seen)
            if n == 0:
                break
            rounds += 1
            r = s.check()
        info['attempts'] = attempt + 1
        if r != z3.unknown:
            break
    info['refine_rounds'] = rounds
    info['time_s'] = round(time.time() - t0, 4)
    try:
        st = s.statistics()
        for k in st.keys():
            if k == 'rlimit count':
                info['rlimit_used'] = st.get_key_value(k)
    except Exception:
        pass
    if r == z3.unsat:
        return 'proved', info
    if r == z3.sat and rounds >= max_refine:
        # the last model was still inconsistent with the true pow2 / bitlen: not a counterexample
        info['reason'] = 'refinement limit (%d rounds)' % max_refine
        return 'unknown', info
    if r == z3.sat:
        info['model'] = s.model()
        if os.environ.get('PYVC_DUMP_SAT'):
            import hashlib
            txt = s.to_smt2()
            with open(os.path.join(os.environ['PYVC_DUMP_SAT'], 'sat_%s.smt2' % hashlib.md5(txt.encode()).hexdigest()[:8]), 'w') as f:
                f.write(txt)
        return 'sat', info
    info['reason'] = s.reason_unknown()
    if use_cvc5:
        r2, t2 = run_cvc5(s)
        info['cvc5'] = r2
        info['cvc5_time_s'] = t2
        if r2 == 'unsat':
            info['solver'] = 'cvc5'
            return 'proved', info
    return 'unknown', info


def run_cvc5(solver, tlimit_ms=60000):
    smt = solver.to_smt2()
    smt = '(set-logic QF_UFNIA)\n' + smt
    t0 = time.time()
    with tempfile.NamedTemporaryFile('w', suffix='.smt2', delete=False, dir=scratch_dir()) as f:
        f.write(smt)
        path = f.name
    try:
        out = subprocess.run(['/usr/bin/cvc5', '--lang=smt2', '--tlimit=%d' % tlimit_ms, path],
                             capture_output=True, text=True, timeout=tlimit_ms / 1000 + 30)
        res = out.stdout.strip().split('\n')[0] if out.stdout.strip() else 'error: ' + out.stderr[:200]
    except Exception as e:
        res = 'error: %s' % e
    finally:
        try:
            os.unlink(path)
        except OSError:
            pass
    return res, round(time.time() - t0, 3)


def scratch_dir():
    d = os.environ.get('PYVC_SCRATCH')
    if not d:
        d = tempfile.gettempdir()
    os.makedirs(d, exist_ok=True)
    return d


# ------------------------------------------------------------------------------ unit

def verify_unit(target, enum_assign, opts=None):
    """verify one function (one combination of its case-split parameters).  Returns a
    plain-data dict."""
    opts = opts or {}
    t_start = time.time()
    reset_fresh()
    ct = C.BY_NAME[target]
    fi = get_funcinfo(ct.func)
    eng = Engine(safety=True, tolerant=False, axioms_fn=axioms_for,
                 feas_rlimit=int(os.environ.get('PYVC_FEAS_RLIMIT', ct.feas_rlimit or 200000)))
    eng.cur = fi
    eng.cur_contract = ct
    if ct.view == 'real':
        eng.registry = C.REGISTRY_RV
    px = PathExec(eng)
    st = State()
    env = entry_env(ct, enum_assign)
    for gname, gshape in ct.ghost_params.items():
        env[gname] = make_shape(gshape, gname)         # universally quantified: a fresh symbol
    env0 = dict(env)
    st.env = dict(env)
    st.entry = dict(env)
    frame = fi.glob_frame()
    frame.contract = ct
    if ct.closure_model:
        # free variables of a nested function, modelled as abstract objects with symbolic fields
        from .vals import ObjV
        frame.closure = {}
        for name, cm in ct.closure_model.items():
            frame.closure[name] = ObjV(name)
            for attr, sh in cm.get('fields', {}).items():
                st.heap[(name, attr)] = make_shape(sh, '%s_%s' % (name, attr))
        for pn, (obj, attr) in ct.state.items():
            env[pn] = st.heap[(obj, attr)]
        env0 = dict(env)
        st.entry = dict(env)
    out = {'target': target, 'enum': enum_assign, 'obligations': [], 'notes': [], 'paths': 0,
           'file': os.path.relpath(fi.filename, '/repo') if fi.filename.startswith('/repo') else fi.filename,
           'line': fi.node.lineno, 'errors': []}
    # requires
    if ct.requires is not None:
        p = Pure(eng, st, dict(env), ct.func.__globals__, True, TRUE, fi.node.lineno)
        r = p.inline_spec(ct.requires, [], {}, extra_env=pick_env(ct.requires, env))
        st.assume(p.truthy(r))
    if ct.requires_g is not None:
        p = Pure(eng, st, dict(env), ct.func.__globals__, True, TRUE, fi.node.lineno)
        st.assume(p.truthy(p.inline_spec(ct.requires_g, [], {}, extra_env=pick_env(ct.requires_g, env))))
    # vacuity: requires /\ lemma instances must be satisfiable
    s = z3.Solver()
    s.set('rlimit', DEFAULT_RLIMIT)
    s.add(*st.pc)
    s.add(*axioms_for(st.pc))
    vr = s.check()
    out['requires_sat'] = str(vr)
    if vr == z3.unsat:
        out['errors'].append('vacuous: requires is unsatisfiable')
        return out
    frame.nreq = len(st.pc)
    outcomes = list(px.block(fi.node.body, st, frame))
    if opts.get('verbose'):
        import sys
        print('   paths=%d obligations=%d symex %.2fs feas=%d' % (len(outcomes), len(eng.obligations),
              time.time() - t_start, eng.nfeas), file=sys.stderr, flush=True)
    out['paths'] = len(outcomes)
    nret = 0
    for st2, sig, val in outcomes:
        lineno = last_line(st2)
        if sig in (RET, NEXT):
            nret += 1
            res = val if sig == RET else ConstV(None)
            env = st2.entry          # entry values (input symbols made concrete by case splits)
            env2 = dict(env)
            env2['result'] = res
            for pn, (obj, attr) in ct.state.items():
                env2[pn + '_out'] = st2.heap.get((obj, attr), UnkV('field %s.%s' % (obj, attr)))
            p = Pure(eng, st2, env2, ct.func.__globals__, True, TRUE, lineno)
            # must-raise conditions do not hold on a returning path
            for excname, fn in ct.raises.items():
                c = p.truthy(p.inline_spec(fn, [], {}, extra_env=pick_env(fn, env)))
                eng.oblig(st2, 'exception', 'returns-only-if-not:%s' % excname, z3.Not(c), lineno,
                          props=ct.all_props)
            if ct.post_hints:
                henv = dict(env2)
                for k, v in st2.env.items():
                    if k.startswith('g_'):
                        henv[k] = v
                ph = Pure(eng, st2, henv, ct_globals(ct), True, TRUE, lineno)
                import ast as _ast
                for src in ct.post_hints:
                    src = src.strip()
                    # a hint must only mention parameters, result, ghost variables and spec / lemma functions
                    _body = src[7:] if src.startswith('assert ') else src
                    for _n in _ast.walk(_ast.parse(_body.strip())):
                        if isinstance(_n, _ast.Name) and isinstance(_n.ctx, _ast.Load) and not _n.id.startswith('g_') \
                                and _n.id not in henv and _n.id not in ct_globals(ct) and _n.id not in ('True', 'False', 'None'):
                            msg = 'post-hint mentions the unknown name %r: %s' % (_n.id, src[:60])
                            if msg not in out['errors']:
                                out['errors'].append(msg)
                    if src.startswith('assert '):
                        # intermediate fact: proved (own obligation), then available to the clauses
                        anode = _ast.parse(src[7:].strip(), mode='eval').body
                        used = [n.id for n in _ast.walk(anode) if isinstance(n, _ast.Name) and n.id.startswith('g_')]
                        if any(u not in henv for u in used):
                            continue
                        eng.oblig(st2, 'ghost', 'post-assert:%s' % src[7:].strip()[:40], ph.truthy(ph.ev(anode)), lineno)
                        continue
                    node = _ast.parse(src).body[0]
                    used = [n.id for n in _ast.walk(node) if isinstance(n, _ast.Name)
                            and isinstance(n.ctx, _ast.Load) and n.id.startswith('g_')]
                    if any(u not in henv for u in used):
                        continue
                    if isinstance(node, _ast.Assign):
                        henv[node.targets[0].id] = ph.ev(node.value)
                    else:
                        st2.assume(ph.truthy(ph.ev(node.value)))
            for name, fn, props in ct.ensures:
                if name in ct.native_clauses:
                    continue
                e = p.inline_spec(fn, [], {}, extra_env=pick_env(fn, env2))
                goal = p2truthy(p, e)
                for gap in ct.gaps:
                    if name in gap['clauses']:
                        gc = p.truthy(p.inline_spec(gap['cond'], [], {}, extra_env=pick_env(gap['cond'], env)))
                        goal = z3.Or(gc, goal)
                ob_st = st2.fork()
                eng.oblig(ob_st, 'ensures', name, goal, lineno, props=props)
                # definitional constraints added while evaluating the clause live in st2.pc
        elif sig == RAISE:
            ename = val.name()
            env = st2.entry
            if ename == 'CalleeException' and ct.exc_ensures:
                # an exception escaping from a modelled free variable (it may raise anything): the clauses
                # exc_ensures_* must hold in the state the function leaves behind
                env2 = dict(env)
                for pn, (obj, attr) in ct.state.items():
                    env2[pn + '_out'] = st2.heap.get((obj, attr), UnkV('field %s.%s' % (obj, attr)))
                p = Pure(eng, st2, env2, ct.func.__globals__, True, TRUE, lineno)
                for name, fn, props in ct.exc_ensures:
                    e = p.inline_spec(fn, [], {}, extra_env=pick_env(fn, env2))
                    eng.oblig(st2.fork(), 'ensures', 'on-exception:%s' % name, p2truthy(p, e), lineno, props=props)
            elif ename in ct.raises:
                p = Pure(eng, st2, dict(env), ct.func.__globals__, True, TRUE, lineno)
                fn = ct.raises[ename]
                c = p.truthy(p.inline_spec(fn, [], {}, extra_env=pick_env(fn, env)))
                eng.oblig(st2, 'exception', 'raises-only-if:%s' % ename, c, lineno, props=ct.all_props)
            else:
                eng.oblig(st2, 'exception', 'unexpected-exception:%s' % ename, FALSE, lineno,
                          props=ct.all_props, extra=val.info)
    out['returning_paths'] = nret
    out['notes'] = list(eng.notes)
    out['callees'] = sorted(getattr(eng, 'used_contracts', set()))
    # anchors: every loop invariant / ghost key of the contract must have been bound
    for k in ct.loops:
        if k >= len(fi.loop_nodes):
            out['errors'].append('contract-anchor-missing: loop %s' % k)
    out['ghost_used'] = [repr(k) for k in ct.ghost if k in frame.ghost_used]
    out['ghost_all'] = [repr(k) for k in ct.ghost]
    want = opts.get('clauses')
    rlimit = opts.get('rlimit', DEFAULT_RLIMIT)
    for ob in eng.obligations:
        if opts.get('prop') and ob.kind == 'ensures' and opts['prop'] not in (ob.props or ()):
            continue
        rec = {'name': ob.name, 'kind': ob.kind, 'clause': ob.clause, 'line': ob.lineno,
               'props': list(ob.props) if ob.props else None, 'trace': ob.trace[-12:]}
        if ob.extra:
            rec['extra'] = ob.extra
        if opts.get('dry'):
            rec['status'] = 'skipped'
            out['obligations'].append(rec)
            continue
        try:
            status, info = solve(ob.pc, ob.goal, rlimit=rlimit, use_cvc5=opts.get('cvc5', True))
        except z3.Z3Exception as e:
            status, info = 'unknown', {'reason': 'z3 exception %s' % e, 'solver': 'z3'}
        rec['status'] = status
        rec['solver'] = info.get('solver')
        rec['time_s'] = info.get('time_s')
        rec['rlimit_used'] = info.get('rlimit_used')
        if status == 'sat':
            m = info['model']
            args = {k: val_to_py(v, m) for k, v in env0.items()}
            rec['model_args'] = args
            rec['replay'] = ({'status': 'not-replayable', 'why': 'the contract is over abstract closure state'}
                             if ct.no_replay else replay(ct, args, ob.clause, ob.kind))
        elif status == 'unknown':
            rec['reason'] = info.get('reason')
            rec['failed_conjunct'] = info.get('failed_conjunct')
            rec['cvc5'] = info.get('cvc5')
        if opts.get('verbose'):
            import sys
            print('   %-8s %-60s %6.2fs %s %s' % (status, ob.name, info.get('time_s') or 0,
                  rec.get('model_args', ''), (rec.get('replay') or {}).get('status', '')), file=sys.stderr, flush=True)
        out['obligations'].append(rec)
    out['wall_s'] = round(time.time() - t_start, 3)
    out['feasibility_checks'] = eng.nfeas
    if opts.get('keep'):
        out['_obs'] = eng.obligations      # development only (not serialisable)
    return out


def p2truthy(p, v):
    return p.truthy(v)


def last_line(st):
    for t in reversed(st.trace):
        if t.startswith('L'):
            try:
                return int(t[1:].split(':')[0])
            except ValueError:
                pass
    return 0


# ------------------------------------------------------------------------------ native replay

def native_args(ct, args):
    """order args for the real call"""
    return [args[p] for p in ct.params]


def call_native(fn, env):
    sig = inspect.signature(fn)
    return fn(*[env.get(k) for k in sig.parameters])


def replay(ct, args, clause, kind):
    """run the real function on the counter-model and evaluate the contract natively"""
    rep = {'args': {k: repr(v) for k, v in args.items()}}
    try:
        if (ct.requires is not None and not call_native(ct.requires, args)) or \
                (ct.requires_g is not None and not call_native(ct.requires_g, args)):
            rep['status'] = 'model-violates-requires-natively'
            return rep
    except Exception as e:
        rep['status'] = 'requires-error: %r' % e
        return rep
    extra = {}
    try:
        if ct.native_harness is not None:
            extra = ct.native_harness(args)            # real code composed around a native model of the closure
            result = extra.pop('result')
        else:
            result = ct.func(*native_args(ct, args))
        rep['result'] = repr(result)
        raised = None
    except Exception as e:
        raised = type(e).__name__
        rep['raised'] = raised
        result = None
    env = dict(args)
    env.update(extra)
    env['result'] = result
    try:
        if raised is not None:
            fn = ct.raises.get(raised)
            ok = bool(fn is not None and call_native(fn, args))
            rep['status'] = 'not-reproduced' if ok else 'reproduced'
            rep['observed'] = 'raised %s' % raised
            return rep
        for excname, fn in ct.raises.items():
            if call_native(fn, args):
                rep['status'] = 'reproduced'
                rep['observed'] = 'returned although %s was required' % excname
                return rep
        if kind == 'ensures':
            for name, fn, props in ct.ensures:
                if name == clause:
                    ok = bool(call_native(fn, env))
                    rep['status'] = 'not-reproduced' if ok else 'reproduced'
                    rep['observed'] = 'ensures_%s evaluates to %s on the real result' % (name, ok)
                    return rep
        # safety / precondition / loop obligations: check all ensures natively
        bad = [name for name, fn, props in ct.ensures if not call_native(fn, env)]
        rep['status'] = 'reproduced' if bad else 'not-reproduced'
        rep['observed'] = 'failing clauses on real result: %s' % bad
    except Exception as e:
        rep['status'] = 'replay-error: %r' % e
        rep['traceback'] = traceback.format_exc()[-600:]
    return rep

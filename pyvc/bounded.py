"""Bounded stand-in tier: the contract clause (same text, native reading) is evaluated on the
*real* function over an explicitly enumerated finite domain.  Labelled bounded in evidence and
never counted as proved."""
import time

from .verify import call_native, native_args


def check_clause_native(ct, args, clauses=None):
    """returns None if fine, else dict describing the failure"""
    try:
        if (ct.requires is not None and not call_native(ct.requires, args)) or \
                (ct.requires_g is not None and not call_native(ct.requires_g, args)):
            return 'skip'
    except Exception:
        return 'skip'
    try:
        if ct.native_harness is not None:
            extra = ct.native_harness(args)
            result = extra.pop('result')
        else:
            extra = {}
            result = ct.func(*native_args(ct, args))
        raised = None
    except Exception as e:
        result, raised, extra = None, type(e).__name__, {}
    env = dict(args)
    env.update(extra)
    env['result'] = result
    if extra.get('_exc'):
        # the modelled callee raised: only the exceptional-exit clauses apply
        for name, fn, props in ct.exc_ensures:
            cname = 'on-exception:%s' % name
            if clauses is not None and cname not in clauses:
                continue
            if not bool(call_native(fn, env)):
                return {'args': args, 'observed': 'exc_ensures_%s is False after the callee raised; state left: %r' % (
                    name, {k: v for k, v in extra.items() if k.endswith('_out')}), 'clause': cname}
        return None
    if raised is not None:
        fn = ct.raises.get(raised)
        if fn is not None and call_native(fn, args):
            return None
        return {'args': args, 'observed': 'raised %s' % raised, 'clause': 'exception'}
    for excname, fn in ct.raises.items():
        if call_native(fn, args):
            return {'args': args, 'observed': 'returned %r although %s required' % (result, excname),
                    'clause': 'exception'}
    for name, fn, props in ct.ensures:
        if clauses is not None and name not in clauses:
            continue
        try:
            ok = bool(call_native(fn, env))
        except Exception as e:
            return {'args': args, 'observed': 'clause %s raised %r on result %r' % (name, e, result),
                    'clause': name}
        if not ok:
            return {'args': args, 'observed': 'ensures_%s is False; result %r' % (name, result),
                    'clause': name, 'result': result}
    return None


def run_bounded(ct, gen, clauses=None, cond=None, max_fail=5, budget_s=None):
    t0 = time.time()
    n = 0
    distinct = set()
    fails = []
    samples = []
    for args in gen:
        if cond is not None:
            try:
                if not call_native(cond, args):
                    continue
            except Exception:
                continue
        r = check_clause_native(ct, args, clauses)
        if r == 'skip':
            continue
        n += 1
        distinct.add(hash(tuple(sorted((k, v if isinstance(v, (int, str, tuple, type(None))) else repr(v)) for k, v in args.items()))))
        if len(samples) < 3:
            samples.append({k: (repr(v) if not (isinstance(v, int) and abs(v) > 10 ** 60) else '<int of %d bits>' % v.bit_length()) for k, v in args.items()})
        if r is not None:
            fails.append(r)
            if len(fails) >= max_fail:
                break
        if budget_s is not None and time.time() - t0 > budget_s:
            break
    return {'evaluations': n, 'distinct_nontrivial': len(distinct), 'failures': fails,
            'samples': samples, 'wall_s': round(time.time() - t0, 2)}

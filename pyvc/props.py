"""Property registry: which contracts / engines decide which property, and what is claimed."""
from . import contract as C

KERNEL_NOTE = ('Trusted base: the pyvc VC generator and its stated encoding of Python int semantics; z3/cvc5; '
               'the lemma library about 2**k / bit length (ground instances only; bounded exhaustive self-check '
               'on every run, Lean proofs where present); assumed leaf python_bitcount (= int.bit_length); '
               'constant tables checked exhaustively on every run; callee contracts proved under the property '
               'named in evidence.callee_contracts_relied_on.')

PROPS = {
    'C01': dict(
        title='canonical representation', level='proof', engines=['refine'],
        claim='Every raw mpf returned by the libmpf/libmpc kernel functions under contract (normalisation, construction, '
              'sign operations, add/sub/mul/div/mod, shift, integer parts, perturb) is canonical: proved for all integer inputs, all precisions and '
              'all five rounding modes as a postcondition (ensures_wf) of the real function bodies, function by function. '
              'Whole-library refinement pass: every libmp function with a precision parameter is checked, path by path against '
              'its callees\' contracts, to return only canonical raw mpfs (functions that cannot be justified are listed, not counted). '
              'Consequence clause: mpf_eq is tuple equality, so equal canonical values are identical tuples. '
              'Functions outside the contract set are not covered (listed in DESIGN.md).',
        note=KERNEL_NOTE,
        technique='deductive: AST->z3 verification conditions from sidecar contracts on the real libmpf functions'),
    'C02': dict(
        title='basic arithmetic correctly rounded', level='other', engines=[],
        claim='Proved (deductive, all inputs/precisions/modes): _normalize, _normalize1, from_man_exp, from_int, '
              'mpf_pos/neg/abs, mpf_add/mpf_sub (every path except the far-exponent sticky shortcut), python_mpf_mul, '
              'python_mpf_mul_int, mpf_div and mpf_rdiv_int (all of it: special values, power-of-two divisors and general '
              'quotients -- the sticky-bit lemma "rounding 2*floor(N/D)+1 one place lower rounds like N/D" is discharged '
              'through a chain of small ghost assertions) return the correctly rounded value (order-theoretic spec CRound '
              'taken from the property text); mpf_sqrt (with isqrt_python / sqrtrem_python) returns the correctly rounded root '
              'in the floor and down modes, special values and exact powers of four included (spec on squares, no root in the '
              'spec). Bounded stand-ins (never counted as proved): the sticky-bit shortcut of mpf_add for far-apart exponents '
              'and mpf_sqrt in the ceiling / up / nearest modes, checked natively against the same contract clause with exact '
              'integer arithmetic over enumerated domains.',
        note=KERNEL_NOTE + ' Not covered: fsum/fdot, the context-level operator templates.',
        technique='deductive VCs (z3) + bounded native contract evaluation for two declared gaps (mpf_add far-apart exponents, mpf_sqrt sticky modes)',
        explanation='mixed: deductive proof for all clauses except the declared gaps (coverage.bounded lists domains and counts)'),
    'C05': dict(
        title='comparisons exact, equal numbers hash equally', level='proof', engines=[],
        claim='mpf_cmp returns the sign of the exact difference (nan excluded), mpf_lt/le/gt/ge agree with exact order and '
              'are False for nan, mpf_eq is exact, mpf_sign exact; mpf_hash equals CPython\'s numeric hash formula '
              '(reduction modulo 2**61-1 with 2**exp reduced through 2**61 == 1, -1 mapped to -2) for every canonical value '
              'including negative exponents; mpc_hash equals CPython\'s complex combination (signed 64-bit wrap). '
              'Proved for all inputs from the real function bodies.',
        note=KERNEL_NOTE + ' The statement "CPython hashes ints/floats by this formula" is the trusted oracle; '
             'mpc_hash, mpq and the context-level __eq__/__hash__ wrappers are not yet under contract.',
        technique='deductive: AST->z3 verification conditions from sidecar contracts'),
    'C10': dict(
        title='no more bits than the working precision', level='other', engines=['refine'],
        claim='(1) Every kernel function under contract that takes (prec, rnd) returns a mantissa of at most prec bits when '
              'prec > 0 (ensures_bits), for all inputs and modes; proved from the real bodies. (2) Whole-library refinement '
              'pass: every module-level function of mpmath/libmp with a precision parameter is given the contract "every raw '
              'mpf component returned is canonical with at most prec bits, prec being the function\'s own parameter" and its '
              'real body is checked path by path against the contracts of its callees (greatest fixpoint; functions that cannot '
              'be justified are listed, not counted). Known findings (mpc_add_mpf/mpc_sub_mpf, mpc_nthroot/mpc_cbrt) are '
              'recorded, not repaired, because repairing them breaks existing tests.',
        note=KERNEL_NOTE + ' Refinement pass: inputs are assumed canonical; unmodelled code is havocked; the context layer '
             '(operator templates, _wrap_specfun final +retval) is not under contract yet.',
        technique='deductive VCs (z3) for the kernel + refinement-type checking of all libmp functions by symbolic execution against callee contracts',
        explanation='proof obligations for every claimed clause; the obligations matching known_findings.json are reported as KNOWN-FINDING and are not discharged (coverage.known_findings_hit)'),
    'C04': dict(
        title='complex arithmetic correctly rounded per component', level='other', engines=[],
        explanation='proof obligations for every claimed clause; the obligations of mpc_add_mpf / mpc_sub_mpf (finding F2, not repaired because the repair breaks an existing test) are reported as KNOWN-FINDING and are not discharged',
        claim='For all canonical operands, precisions and rounding modes each component of mpc_add, mpc_sub, mpc_add_mpf, '
              'mpc_sub_mpf, mpc_pos, mpc_neg, mpc_conjugate, mpc_mul (finite operands), mpc_mul_mpf, mpc_mul_int is the '
              'correctly rounded value of the exact component (sum/difference of exact products for mpc_mul), is canonical '
              'and has at most prec bits: proved by composition of the libmpf contracts from the real libmpc bodies. '
              'Not covered (stated): mpc_square, mpc_pow_int, and the modulus-error clause for mpc_div/reciprocal/negative powers.',
        note=KERNEL_NOTE,
        technique='deductive: AST->z3 verification conditions; callee contracts of libmpf proved under C02'),
    'C06': dict(
        title='integer-part functions and modulo follow their exact definitions', level='proof', engines=[],
        claim='round_int, to_int (all modes and the default truncation), mpf_round_int / mpf_floor / mpf_ceil / mpf_nint '
              '(exact integer result when called without precision; canonical and at most prec bits otherwise), to_rational, '
              'and mpf_mod (x mod y = x - y*floor(x/y) with the sign of y, correctly rounded; ZeroDivisionError exactly for a '
              'zero divisor; nan for non-finite operands) satisfy their mathematical definitions for all inputs: proved from '
              'the real function bodies. Not covered: the value clause of floor/ceil/nint/frac when a precision is given '
              '(composition through an existential intermediate), complex variants.',
        note=KERNEL_NOTE,
        technique='deductive: AST->z3 verification conditions from sidecar contracts'),
    'C03': dict(
        title='integer powers never rounded past the exact value', level='exploration', engines=[],
        claim='Bounded only: for an enumerated grid of bases (all odd mantissas < 32 over an exponent window, boundary '
              'mantissas of 20..100 bits, both signs), exponents n from -300 to 4097, precisions and all five modes, '
              'mpf_pow_int is checked on the real code against the exact rational power: special values, exact small '
              'cases correctly rounded, directed modes never on the wrong side, nearest within one ulp, canonical form and '
              'bit bound. No deductive claim for the value clauses (see the contract docstring); canonical form and the '
              'precision bound of mpf_pow_int are decided deductively under C01/C10 (refinement pass).',
        note='Exact rational arithmetic (fractions.Fraction) is the oracle; the domain is listed in evidence.coverage.bounded.',
        technique='bounded native evaluation of the contract clauses against an exact rational oracle (stand-in, not a proof)'),
    'C37': dict(
        title='pure-Python and GMP back ends give identical core results', level='proof', engines=[],
        claim='gmpy2 is not installed, so the two back ends cannot be run side by side. Decided by contracts: the '
              'Python-source gmpy_* variants (gmpy_mpf_mul, gmpy_mpf_mul_int) are proved against the same functional '
              'contract as their python_* twins (bitcount\'s contract standing for gmpy bit_length / numdigits(2)); the '
              'contract fixes the result tuple, so both return bit-identical canonical results. The C implementations '
              '(gmpy._mpmath_normalize/_mpmath_create, gmpy.isqrt*) and "other routines agree within documented accuracy" '
              'are outside any verifier here.',
        note=KERNEL_NOTE + ' Assumed: gmpy primitives satisfy python_bitcount\'s contract; _mpmath_normalize satisfies _normalize\'s.',
        technique='deductive: both back-end variants proved against one contract'),
    'C40': dict(
        title='pickling and copying preserve values exactly', level='proof', engines=[],
        claim='from_pickable(to_pickable(x)) == x for every canonical raw mpf x (any mantissa length, special values '
              'included): proved on a harness that inlines both real function bodies, under the assumed builtin contract '
              'int(hex(m)[2:], 16) == m for m >= 0 (the obligation man >= 0 is discharged from canonical form). '
              'Not covered: __getstate__/__setstate__ wrappers, matrix.copy, CPython\'s pickle/copy machinery.',
        note=KERNEL_NOTE + ' Trusted: the hex/int round trip of CPython.',
        technique='deductive: harness over the real to_pickable/from_pickable bodies, assumed builtin round trip'),
    'C16': dict(
        title='interval comparisons are sound three-valued predicates', level='proof', engines=['speclemmas'],
        claim='For valid raw intervals (canonical non-nan endpoints, lower <= upper) mpi_lt/le/gt/ge return True exactly '
              'when the relation holds for every pair of member points, False exactly when it fails for every pair, None '
              'otherwise, and mpi_eq/mpi_ne compare the endpoints exactly: the endpoint form is proved from the real libmpi '
              'bodies (using the proved exact-order contracts of mpf_lt/le/gt/ge), and the equivalence of the endpoint form '
              'with the quantified statement is discharged as spec lemmas over the reals. Not covered: ivmpf.__contains__ '
              'and the context-level _compare wrappers.',
        note=KERNEL_NOTE,
        technique='deductive: VCs from sidecar contracts + order-theoretic spec lemmas (z3, quantified reals)'),
    'C14': dict(
        title='real interval operations contain every exact result', level='other', engines=['ivbounded'],
        claim='Deductive (all intervals incl. infinite and half-infinite ones, all precisions; the member points x, y are '
              'universally quantified reals): from the real bodies of libmpi mpi_add, mpi_sub, mpi_neg, mpi_pos, mpi_abs, mpi_mul, '
              'mpi_square, mpi_div (y != 0; no ZeroDivisionError escapes), mpi_mul_mpf, mpi_div_mpf the result is a valid interval '
              'containing x op y; mpi_exp, mpi_log, mpi_sqrt, mpi_atan contain F(x) on finite operands given monotonicity of F. '
              'These proofs rest on the real-order view of the mpf operations (contracts/realview.py): assumed contracts that read '
              'the integer-level rounding contracts proved under C02/C06 as order relations (floor result <= exact <= ceiling '
              'result, exact when prec == 0, IEEE-like special values), and assumed correct directed rounding of mpf_exp/log/sqrt/atan. '
              'Bounded (exact rational oracle): add, sub, mul, div, neg, abs, pos, square and integer powers -3..5 on intervals '
              'with endpoints from a fixed list of 13 extended-real values, precisions 1..53. Not covered: sin, cos, tan, atan2, '
              'gamma family, real and integer powers (deductively), conversions, the context layer ctx_iv.',
        note=KERNEL_NOTE + ' Real view: rval is uninterpreted (only its sign is linked to the sign field); the bridge from CRound to the '
             'order relation is the definition of rounded_ok scaled by a positive power of two and is not machine-checked. '
             'Exact rational arithmetic is the oracle of the bounded tier; its domain is written into evidence.coverage.',
        explanation='deductive containment proofs over assumed real-order contracts of the mpf operations, plus a bounded exact-oracle tier; not a proof of the property from first principles',
        technique='deductive VCs over the reals (universally quantified member points) from the real libmpi bodies + bounded native containment check'),
    'C15': dict(
        title='complex interval operations contain every exact result', level='other', engines=[],
        claim='Deductive, partial: for universally quantified points (xr + i xi) of the rectangle x and (yr + i yi) of y, the real bodies '
              'of libmpi mpci_add, mpci_sub, mpci_neg, mpci_pos, mpci_mul and mpci_div (y != 0) return valid rectangles containing the '
              'exact real and imaginary parts of x op y, for all rectangles incl. infinite sides and all precisions. They are verified '
              'against the quantified contracts of the real interval operations proved under C14 (instantiated per call), which in turn '
              'rest on the assumed real-order view of the mpf operations. Not covered: **, abs, exp, log, cos, sin, gamma, rgamma, '
              'loggamma, factorial (mpci_gamma corner selection, F12, was never confirmed as a defect), the context layer ctx_iv.',
        note=KERNEL_NOTE + ' Real view as for C14: assumed order contracts of the mpf operations (contracts/realview.py).',
        explanation='deductive containment proofs for six of the operations over the assumed real-order contracts; no claim for the transcendental functions',
        technique='deductive VCs over the reals (universally quantified member points) from the real libmpi mpci_* bodies, callee contracts instantiated per call'),
    'C38': dict(
        title='contexts are isolated from each other', level='other', engines=['ownership'], no_units=True,
        claim='Frame (ownership) contracts decided for every function of mpmath outside tests (all inputs; the rules are about which '
              'object a store goes to): (W1) a function stores into the precision state (_prec, _dps, _prec_rounding, prec, dps) only of '
              'its own context -- its ctx/self parameter, an object created for that context (.ctx/.context), the context\'s `_mp` '
              'delegate, or a context it has just constructed; (W2) the state containers are fresh list displays and the _ctxdata of the '
              'numeric classes point at the receiver\'s own list; (W3) the numeric classes are created per context by type(...) and '
              'linked to that context; (W4) no library function names the global mp / fp / iv; (W5) every attribute that '
              'mpmath/__init__.py sets on the global mp is also set by the MPContext constructors, so clones have it. Found and repaired: '
              'clones lacked `_mp` (mp.clone().zeta(0.5+1e7j) raised AttributeError, F20). Not covered: that a clone computes the same '
              '*values* as mp (beyond having the same code and attributes), module-level caches (their keys are under C33), fp/iv '
              'sharing the global mp as `_mp` delegate (a temporary, restored precision change of mp during fp/iv zeta evaluations).',
        note='Syntactic store analysis over the ast of every source file; computed attribute names and C extensions are not seen.',
        explanation='ownership/frame contracts decided syntactically for all functions; the value-equality half of the property is not decided',
        technique='deductive frame (ownership) contracts over the real sources: every store into context state is checked against the function\'s own context'),
    'C29': dict(
        title='root finders return genuine roots', level='other', engines=['guards', 'boundedprops'], no_units=True,
        claim='Control/data-flow contracts decided for all inputs by enumerating every path of the real function bodies '
              '(unmodelled data havocked): (1) with verify=True every value findroot returns at its final `return x` went '
              'through the check `not norm(f(*xl))**2 > tol` on the same x on that path, the only other returns being the '
              'starting point when norm(f(x0)) == 0; (2) MNewton binds a user-supplied df / d2f keyword to the attribute '
              'that the iteration uses. Bounded (exact construction): polyroots on real polynomials built from chosen simple real '
              'roots and conjugate pairs returns deg roots, each near a chosen one, real roots first and complex roots as adjacent '
              'conjugate pairs; known finding F21 (pairs with equal |imaginary part| interleave). Not applicable (analytic): '
              'convergence and accuracy of the solvers, bracketing containment, multiple-root accuracy 2^(4-p/m).',
        note='f and norm are assumed deterministic; a NaN residual makes `>` false and is the one input class for which '
             'the clause is not implied. The precision frame of findroot is decided under C11.',
        explanation='deductive control-flow contracts for findroot / MNewton; the ordering of polyroots is covered only by the bounded tier',
        technique='deductive control-flow contracts: guard-dominates-return and keyword-dataflow clauses over all paths of the real code + bounded native check of polyroots ordering'),
    'C35': dict(
        title='integer relation results are genuine relations', level='other', engines=['guards', 'boundedprops'], no_units=True,
        claim='Control-flow contract of pslq, for all inputs: every vector returned went through `err < tol` and '
              '`max(abs(v) for v in vec) < maxcoeff` on that path after it was built, and is built as a list of Python ints. '
              'Bounded (exact rational check): for vectors of classical constants with and without planted relations at scales 2^-40..2^40 and three tolerances, every vector pslq returns is a non-zero integer vector below maxcoeff with |c.x| <= tol*||x||_2, and planted relations are found. Not decided deductively: that the returned vector is a genuine relation |sum c_k x_k| <= tol*||x|| (the success test is '
              'on the reduced vector; this rests on the PSLQ matrix invariant in fixed point), non-zero-ness, findpoly/identify.',
        note='Only which checks dominate which returns is decided; the tested data is not interpreted.',
        explanation='deductive control-flow contract for the acceptance guards; the bound itself is covered only by the bounded tier',
        technique='deductive control-flow contract (guard dominates return) over all paths of pslq + bounded native check of the returned relations with exact rational arithmetic'),
    'C33': dict(
        title='cached state never leaks stale or wrong results', level='proof', engines=['cachekeys'],
        claim='Cache-protocol contracts decided on the real code by data-flow analysis (for all inputs, no execution): '
              '(K) key determines value for the stores into QuadratureRule.standard_cache / transformed_cache, memoize\'s '
              'table (precision stored with the value), log_int_cache, log_taylor_cache, atan_taylor_cache, cos_sin_cache: '
              'every input (parameter or working precision) the stored value depends on is determined by the key, and read '
              'sites use the same key; (I) every _matrix method that mutates the private data resets the cached LU '
              'decomposition (the one method documented as unsafe is exempt by name); (P) mpf_bernoulli hands out a freshly '
              'computed number exactly like a cached one; (E) the constant cache (constant_memo, verified as a VC unit from its '
              'real source with the wrapped routine as an abstract object that may raise anything): the value returned depends '
              'on the requested precision only, the cache invariant is kept, and when the wrapped routine is aborted by an '
              'exception the cache is left exactly as it was. Not covered: hyp_summators, odefun series data, "aborted by an '
              'exception at any point" for the other tables, equality of results up to rounding.',
        note='Backward slicing is flow-insensitive up to textual order (over-approximation: a clause that holds may in principle '
             'be reported as violated, never the reverse, for the dependency relation as modelled); calls are treated as '
             'functions of their arguments, receiver and working precision.',
        technique='deductive data-flow contracts (key-determines-value, invalidation, same-protocol) over the real function bodies'),
    'C07': dict(
        title='decimal strings convert to correctly rounded binary values', level='exploration', engines=['boundedprops'], no_units=True,
        claim='Bounded only: from_str on a fixed list of boundary literals (ties, long digit strings, p/q, exponents beyond +-400) '
              'plus seeded random literals, at 6 precisions and all five modes, against Fraction(literal): correctly rounded '
              'inside 1e-100..1e100, never on the wrong side with a directed mode for every literal. (The deductive core of the '
              'conversion -- from_int, from_rational/mpf_div, mpf_mul -- is under C02.)',
        note='Exact rational / integer arithmetic of CPython is the oracle; the enumerated domain is written into evidence.coverage.rule.', technique='bounded native check against exact rational arithmetic (stand-in, not a proof)'),
    'C08': dict(
        title='printed numbers round-trip and are nearest decimal approximations', level='exploration', engines=['boundedprops'], no_units=True,
        claim='Bounded only: eval(repr(x)) == x and nstr(x, n) is a nearest n-digit decimal (n = 1, 3, 8) for all odd mantissas '
              'below 2^9 and seeded full-width mantissas over an exponent window at 3 precisions, plus values within 2^-280 of '
              'decimal midpoints at 300 bits. Known finding F11 (double rounding through truncated digits: nstr(x, 1) = 0.1 for a '
              '300-bit x just above 0.15) is recorded, not repaired (the repair is not a minimal patch).',
        note='Exact rational / integer arithmetic of CPython is the oracle; the enumerated domain is written into evidence.coverage.rule.', technique='bounded native check against exact rational arithmetic (stand-in, not a proof)'),
    'C09': dict(
        title='conversion to and from machine floats', level='exploration', engines=['boundedprops'], no_units=True,
        claim='Bounded only: from_float(f) is exactly f for boundary doubles and 2000 seeded random bit patterns; to_float(x) equals '
              'the nearest double (ties to even; CPython float(Fraction) as oracle) for 3000 seeded mantissa/exponent combinations '
              'incl. exact ties and overflow to +-inf, subnormal range excluded as in the property.',
        note='Exact rational / integer arithmetic of CPython is the oracle; the enumerated domain is written into evidence.coverage.rule.', technique='bounded native check against exact rational arithmetic (stand-in, not a proof)'),
    'C25': dict(
        title='integer-valued and number-theoretic functions are exact', level='exploration', engines=['boundedprops'], no_units=True,
        claim='Bounded only: factorial, fac2, fib (also negative n), binomial, rf, ff on integer arguments up to 60, Stirling numbers '
              '(exact=True), Bell, bernfrac (reduced, positive denominator), Euler numbers by exact recurrences, isprime/primepi against '
              'a sieve up to 20000 plus the strong-pseudoprime switch points, moebius by trial division. Not covered: cyclotomic, '
              'mangoldt, bernpoly/eulerpoly; the deterministic Miller-Rabin witness theorem is not a VC.',
        note='Exact rational / integer arithmetic of CPython is the oracle; the enumerated domain is written into evidence.coverage.rule.', technique='bounded native check against exact integer/rational recurrences (stand-in, not a proof)'),
    'C39': dict(
        title='magnitude, nearest-integer and classification helpers are exact', level='other', engines=['boundedprops'],
        claim='Deductive (all inputs): mpf_frexp (|y| in [1/2, 1), x = y*2^n exactly), to_man_exp, mpf_shift (exact scaling) from the '
              'real libmpf bodies. Bounded (exact rational oracle): mag, nint_distance, isint, frexp, ldexp, isfinite/isinf/isnan/'
              'isnormal at the context level on dyadic rationals with short, long and seeded mantissas and half-integers.',
        note=KERNEL_NOTE + ' Exact rational / integer arithmetic of CPython is the oracle; the enumerated domain is written into evidence.coverage.rule.',
        explanation='deductive contracts for the libmpf helpers; the context-level functions are covered only by the bounded tier (coverage.engine_boundedprops)',
        technique='deductive VCs for libmpf helpers + bounded native check of the context-level functions'),
    'C12': dict(
        title='elementary functions are accurate to the working precision', level='exploration', engines=['boundedprops'], no_units=True,
        claim='Bounded only (real arguments, real results): the contract |f(x) - F(x)| < 2^(4-p)|F(x)| evaluated natively for exp, log '
              '(bases e, 2, 10), sqrt, cbrt, root, power, sin, cos, tan, sec, csc, cot, sinh, cosh, tanh, asin, acos, atan, asinh, acosh, '
              'atanh, atan2, hypot, log1p, expm1, sinpi, cospi on a grid of mantissa/exponent combinations, doubles nearest k*pi/2, the '
              'classical worst case for double reduction, 1 +- 2^-k, at precisions 10..601 (quick) / 10..4000 incl. the 400/600/2500/3000 '
              'thresholds (thorough), plus root(x, 5..10) over a band of precisions 2990..3095. Found and repaired: acosh near 1 (F14), '
              'nthroot near 3000 bits (F18). Not covered: complex arguments, arg, expj, expjpi, powm1, sinc.',
        note='Reference: the system MPFR through ctypes (trusted), two directed evaluations at p+80 bits; the enumerated domain is written into evidence.coverage.rule. Complex arguments, and functions MPFR does not provide, are not covered.', technique='bounded native check of the accuracy contract against a rigorous MPFR enclosure (stand-in, not a proof)'),
    'C13': dict(
        title='exact cases and special values of elementary functions', level='exploration', engines=['boundedprops'], no_units=True,
        claim='Bounded only: exact points of 21 functions; sqrt, cbrt and root(x**k, k) of seeded mantissas of 1..prec bits are exact; '
              'sinpi/cospi at integers and half-integers up to 10^30; powm1 unit cases; tan, cot, sec, csc are finite and accurate at the '
              '5 p-bit numbers around k*pi/2; inf/nan limits. (The remainder test of mpf_sqrt -- sqrtrem -- is under contract in C02/C01.)',
        note='Reference: the system MPFR through ctypes (trusted), two directed evaluations at p+80 bits; the enumerated domain is written into evidence.coverage.rule. Complex arguments, and functions MPFR does not provide, are not covered.', technique='bounded native check against exact values and a rigorous MPFR enclosure (stand-in, not a proof)'),
    'C17': dict(
        title='mathematical constants at every precision and history', level='other', engines=['boundedprops'],
        claim='Deductive (all precisions, all cache histories), under the documented assumption that a fixed-point routine '
              'returns floor(c*2^prec): the inner function of constant_memo returns floor(c*2^prec) whatever was requested '
              'before, keeps the cache invariant memo_val == floor(c*2^memo_prec) and only grows the cache; the inner function '
              'of def_mpf_constant returns the correct rounding of floor(c*2^(prec+20)) (+1 for ceiling/up), hence a value on the '
              'correct side of c for the directed modes. Both are verified from the real source of one instance (ln2_fixed / '
              'mpf_ln2; all instances share the code object). Bounded (MPFR reference): pi, e, ln2, ln10, phi, degree are the '
              'correctly rounded p-bit values and euler, catalan, apery are within one ulp for every precision 1..700 (quick, '
              'thinned above 130) / 1..3300 (thorough), five rounding modes, three request histories. Not covered: that the '
              'fixed-point routines really are floors (assumed; machin() is not an exact floor), khinchin, glaisher, twinprime, mertens.',
        note='Reference: the system MPFR through ctypes (trusted), two directed evaluations at p+80 bits; the enumerated domain is written into evidence.coverage.rule.' + ' Deductive part: free variables of the nested functions are abstract objects (symbolic fields, assumed call '
             'contract); int(prec*1.05+10) is read as exact real arithmetic; nested floors (lemma_cfix_shift) is a hint lemma.',
        explanation='deductive contracts for the cache protocol and the directed-rounding adjustment; the numerical values are covered only by the bounded MPFR tier',
        technique='deductive VCs for constant_memo / def_mpf_constant (assumed floor contract of the fixed-point routines) + bounded native check against MPFR'),
    'C18': dict(
        title='gamma-family functions are accurate', level='exploration', engines=['boundedprops'], no_units=True,
        claim='Bounded only (real arguments): relative error below 2^(8-p) for gamma, rgamma, loggamma (x > 0), digamma, factorial, '
              'beta on a grid incl. half-integers and points 2^-10 / 2^-40 from the poles; rgamma is exactly 0 and gamma raises at the '
              'poles. Repaired: digamma near negative poles (F16). Known finding F17: digamma has only absolute accuracy near its zero '
              '1.46163... Not covered: complex arguments, fac2, binomial, rf, ff, gammaprod, polygamma, harmonic, barnesg, superfac, hyperfac.',
        note='Reference: the system MPFR through ctypes (trusted), two directed evaluations at p+80 bits; the enumerated domain is written into evidence.coverage.rule. Complex arguments, and functions MPFR does not provide, are not covered.', technique='bounded native check of the accuracy contract against a rigorous MPFR enclosure (stand-in, not a proof)'),
    'C19': dict(
        title='zeta-family functions are accurate', level='exploration', engines=['boundedprops'], no_units=True,
        claim='Bounded only, small real subset: relative error below 2^(8-p) for zeta(s) at real s in -10..50 (quarter steps, near the '
              'pole, negative half-integers; the trivial zeros are exactly 0), polylog(2, x) for real x <= 1 and bernpoly at rational '
              'points (exact rational oracle). Not covered: complex arguments (critical strip, Riemann-Siegel), Hurwitz zeta, '
              'derivatives, altzeta, dirichlet, lerchphi, eulerpoly, stieltjes, primezeta, siegeltheta, siegelz, riemannr.',
        note='Reference: the system MPFR through ctypes (trusted), two directed evaluations at p+80 bits; the enumerated domain is written into evidence.coverage.rule. Complex arguments, and functions MPFR does not provide, are not covered.', technique='bounded native check of the accuracy contract against a rigorous MPFR enclosure (stand-in, not a proof)'),
    'C21': dict(
        title='Bessel, Airy and related functions are accurate', level='exploration', engines=['boundedprops'], no_units=True,
        claim='Bounded only, small real subset: relative error below 2^(8-p) for besselj(n, x) and bessely(n, x) with integer order '
              'n in {0, 1, 2, 5, 17} and positive real x from 2^-60 to 333, and airyai on [-40, 40]. Not covered: everything else the '
              'property lists (non-integer and complex orders and arguments, besseli/k, hankel, airybi, derivatives, struve, kelvin, '
              'scorer, coulomb, anger/weber, lommel, the zero finders).',
        note='Reference: the system MPFR through ctypes (trusted), two directed evaluations at p+80 bits; the enumerated domain is written into evidence.coverage.rule. Complex arguments, and functions MPFR does not provide, are not covered.', technique='bounded native check of the accuracy contract against a rigorous MPFR enclosure (stand-in, not a proof)'),
    'C20': dict(
        title='error, exponential and incomplete gamma integrals are accurate', level='exploration', engines=['boundedprops'], no_units=True,
        claim='Bounded only (real arguments): relative error below 2^(8-p) for erf, erfc (incl. tails), ei, e1 (x > 0) and the upper '
              'incomplete gamma function on a grid 2^-80..2^8. Known finding F15: gammainc(a, x) for non-integer a < -20 is wrong by '
              'orders of magnitude (premature termination of the 1F1 series). Not covered: complex arguments, erfi, erfinv, npdf, ncdf, '
              'expint, li, si, ci, shi, chi, fresnel, generalized/regularized/lower gammainc, betainc.',
        note='Reference: the system MPFR through ctypes (trusted), two directed evaluations at p+80 bits; the enumerated domain is written into evidence.coverage.rule. Complex arguments, and functions MPFR does not provide, are not covered.', technique='bounded native check of the accuracy contract against a rigorous MPFR enclosure (stand-in, not a proof)'),
    'C11': dict(
        title='working precision restored on every exit', level='proof', engines=['precframe'], no_units=True,
        claim='For every function, method, nested function and lambda in mpmath (outside tests and libmp; 1093 on this tree) '
              'the contract "on every exit, normal or exceptional, the precision equals its entry value" is discharged: '
              'syntactically by the frame rule for functions that never write the precision, and by path-sensitive symbolic '
              'execution with an exceptional edge at every statement that can raise while the precision is changed '
              '(and inside every try with handlers) for the others. Setters, declared helpers (callers see the precision '
              'havocked) and bodies protected by the proved _wrap_specfun wrapper are classified explicitly.',
        note='Assumes: user callbacks leave the precision unchanged (they may raise); one context per function; '
             'dps<->prec conversions are uninterpreted (so a restore through dps is not accepted); unmodelled code is '
             'havocked. Dynamic fault-injection drivers replay violations on the real code where a driver exists.',
        technique='deductive precision-frame contracts per function (symbolic execution + z3), modular via helper classes'),
}

NOT_APPLICABLE = {
    'C22': 'accuracy of hypergeometric functions / orthogonal polynomials is a statement about truncation and cancellation in series of reals; no contract over integers or an ordered-field abstraction within reach of this verifier decides it, and MPFR (the only rigorous reference in the sandbox) offers none of these functions beyond li2, which is used under C19',
    'C23': 'accuracy of elliptic / theta / modular functions, AGM and Lambert W is analytic (convergence of q-series and Newton/Halley iterations); not expressible as a decidable contract here, and there is no independent rigorous reference for a bounded stand-in (mpfr_agm alone would cover one function out of the list)',
    'C24': 'termination of the series-summation loops depends on the convergence of (asymptotic) series for the given argument: a ranking function needs the analysis; termination obligations of the integer loops that are under contract (e.g. the strip loop of _normalize) are discharged with their functions and reported there',
    'C26': 'convergence and accuracy of numerical quadrature over classes of integrands is analytic; the only contract-level parts (precision frame, node cache keys) are decided under C11 and C33',
    'C27': 'convergence of series acceleration, limits and extrapolation is analytic',
    'C28': 'accuracy of numerical differentiation, Taylor and Pade coefficients is analytic (step-size / cancellation trade-off)',
    'C30': 'backward-error statements about floating-point LU / QR / Cholesky depend on conditioning and growth factors: numerical analysis, not verification conditions; the LU cache invalidation protocol is decided under C33',
    'C31': 'eigenvalue / SVD residual bounds are numerical analysis (convergence of QR iterations)',
    'C32': 'matrix function identities hold up to a tolerance that depends on conditioning: numerical analysis',
    'C34': 'accuracy of Taylor-series ODE stepping is analytic (the cache-protocol part of odefun is mentioned under C33 as not covered)',
    'C36': 'accuracy of Chebyshev / Fourier approximations is analytic',
    'C41': 'locating and counting zeta zeros correctly rests on analytic facts (Gram / Rosser blocks, Turing method) that no contract here can state',
    'C42': 'accuracy of numerical inverse Laplace transforms is analytic (its precision handling is decided under C11: the invertlaplace leak was found and repaired there)',
    'C43': 'fp results are IEEE doubles produced by libm / cmath; no float theory in the solvers matches libm, and agreement with mp to 2**-48 is a numerical statement; a bounded comparison would be a test, not a contract',
}


def targets_for(prop):
    out = []
    if PROPS.get(prop, {}).get('no_units'):
        return out
    for name, ct in C.BY_NAME.items():
        ps = set(ct.all_props)
        for _, _, p in ct.ensures:
            ps.update(p)
        if prop in ps:
            out.append(name)
    has_real = any(C.BY_NAME[n].view == 'real' for n in out)
    has_int = any(C.BY_NAME[n].view != 'real' for n in out)
    for name, ct in C.BY_NAME.items():
        if ct.assumed and name not in out and (has_real if ct.view == 'real' else has_int):
            out.append(name)
    return out

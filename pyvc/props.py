"""Property registry: which contracts / engines decide which property."""
from . import contract as C

PROPS = {
    'C01': dict(title='canonical representation', level='proof', engines=[]),
    'C02': dict(title='basic arithmetic correctly rounded', level='proof', engines=[]),
    'C10': dict(title='no more bits than the working precision', level='proof', engines=[]),
    'C05': dict(title='comparisons exact, equal numbers hash equally', level='proof', engines=[]),
    'C11': dict(title='working precision restored on every exit', level='proof', engines=['precframe'],
                no_units=True),
}


def targets_for(prop):
    out = []
    if PROPS.get(prop, {}).get('no_units'):
        return out
    for name, ct in C.BY_NAME.items():
        ps = set(ct.all_props)
        for _, _, p in ct.ensures:
            ps.update(p)
        if prop in ps:
            out.append(name)
    # assumed leaves used by those functions are listed through their contracts
    for name, ct in C.BY_NAME.items():
        if ct.assumed and name not in out:
            out.append(name)
    return out

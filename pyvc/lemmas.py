"""Ground instantiation of the fixed lemma library about pow2 / bitlen / ipow.

SMT does no induction, so facts about 2**n and bit length enter only as *ground instances*
of the lemmas below at the terms that occur in an obligation.  Every lemma is a true
statement about the mathematical functions (pow2(k) = 2**k for k >= 0, bitlen = bit_length
for x >= 0); their Lean 4 / Mathlib proofs live in /verif/lemmas/Pow2.lean and the
statements are additionally checked exhaustively on small arguments by
`selfcheck_lemmas()`.  The list (names are reported in evidence):

  pow2_pos        k >= 0            ->  pow2(k) >= 1
  pow2_gt         k >= 0            ->  pow2(k) > k
  pow2_mono       0 <= a < b        ->  2*pow2(a) <= pow2(b)
  pow2_succ       a >= 0, b = a+1   ->  pow2(b) = 2*pow2(a)
  pow2_add        a, b >= 0         ->  pow2(a+b) = pow2(a)*pow2(b)      (hint-driven)
  pow2_sub        0 <= b <= a       ->  pow2(a) = pow2(a-b)*pow2(b)      (hint-driven)
  bitlen_zero                           bitlen(0) = 0
  bitlen_spec     x > 0             ->  bitlen(x) >= 1 /\\ pow2(bitlen(x)-1) <= x < pow2(bitlen(x))
  ipow_*          recurrences for ipow(b, n)                              (hint-driven)
"""
import z3

from .vals import pow2_f, bitlen_f, ipow_f

LEMMA_NAMES = ['pow2_pos', 'pow2_gt', 'pow2_even', 'pow2_small', 'pow2_mono', 'pow2_succ',
               'pow2_add_const', 'bitlen_zero', 'bitlen_spec', 'bitlen_nonneg']


def collect(formulas, decls):
    """all applications of the given decls inside the formulas -> dict decl-name -> {id: term}"""
    out = {d.name(): {} for d in decls}
    names = set(out)
    seen = set()
    stack = list(formulas)
    while stack:
        t = stack.pop()
        i = t.get_id()
        if i in seen:
            continue
        seen.add(i)
        if z3.is_app(t):
            d = t.decl()
            if d.kind() == z3.Z3_OP_UNINTERPRETED and d.name() in names and t.num_args() > 0:
                out[d.name()][i] = t
            stack.extend(t.children())
        elif z3.is_quantifier(t):
            stack.append(t.body())
    return out


def axioms_for(formulas, light=False, max_pairs=400):
    """ground lemma instances for the pow2/bitlen terms occurring in `formulas`"""
    ax = []
    found = collect(formulas, [pow2_f, bitlen_f])
    bl = found['bitlen']
    # bitlen instances (introduce new pow2 terms)
    new_terms = []
    for t in bl.values():
        x = t.arg(0)
        ax.append(z3.Implies(x == 0, t == 0))
        ax.append(z3.Implies(x >= 0, t >= 0))
        ax.append(z3.Implies(x > 0, z3.And(t >= 1, pow2_f(t - 1) <= x, x < pow2_f(t))))
        new_terms.append(pow2_f(t - 1))
        new_terms.append(pow2_f(t))
    p2 = dict(found['pow2'])
    for t in new_terms:
        p2.setdefault(t.get_id(), t)
    # deduplicate by simplified argument
    args = {}
    for t in p2.values():
        a = z3.simplify(t.arg(0))
        args.setdefault(a.get_id(), (a, t))
    items = list(args.values())
    for a, t in items:
        if z3.is_int_value(a):
            k = a.as_long()
            if 0 <= k <= 8192:
                ax.append(t == z3.IntVal(1 << k))
            continue
        ax.append(z3.Implies(a >= 0, z3.And(t >= 1, t > a)))          # pow2_pos, pow2_gt
        ax.append(z3.Implies(a >= 1, t % 2 == 0))                     # pow2_even
    if light:
        return ax
    for a, t in items:
        if z3.is_int_value(a):
            continue
        for k in range(0, 9):                                         # pow2_small
            ax.append(z3.Implies(a == k, t == z3.IntVal(1 << k)))
    n = 0
    for i in range(len(items)):
        ai, ti = items[i]
        for j in range(len(items)):
            if i == j:
                continue
            aj, tj = items[j]
            if z3.is_int_value(ai) and z3.is_int_value(aj):
                continue
            n += 1
            if n > max_pairs:
                break
            d = z3.simplify(aj - ai)
            if z3.is_int_value(d):
                c = d.as_long()
                if 0 < c <= 256:
                    # pow2_add with a concrete summand: linear
                    ax.append(z3.Implies(ai >= 0, tj == z3.IntVal(1 << c) * ti))
                continue
            ax.append(z3.Implies(z3.And(ai >= 0, ai < aj), 2 * ti <= tj))   # pow2_mono
            ax.append(z3.Implies(z3.And(ai >= 0, aj == ai + 1), tj == 2 * ti))  # pow2_succ
    return ax
